#!/venv/bin/python
"""Entry point of every registered check.

  run_check.py <ID> --tier quick|thorough        run the seeded batch, write evidence
  run_check.py <ID> --replay <file>              re-execute a minimised scenario
  run_check.py <ID> --fingerprints i,j,k         (internal) determinism self-test helper

Exit 0: property held on everything explored (known findings are printed as
KNOWN-FINDING lines); exit 1 + "VIOLATION property=<id> replay=<path>"; exit 2 +
"HARNESS-ERROR ..." when the machinery itself failed.
"""
import argparse
import os
import sys

os.environ.setdefault("TQDM_DISABLE", "1")
HERE = os.path.dirname(os.path.abspath(__file__))
if HERE not in sys.path:
    sys.path.insert(0, HERE)
REPO = os.environ.get("TDGLSIM_REPO", "/repo")  # override only for testing the machinery on scratch copies
if REPO not in sys.path:
    sys.path.insert(0, REPO)

DEFAULT_SEED = {
    "C01": 101, "C02": 102, "C04": 104, "C05": 105, "C06": 106, "C08": 108, "C09": 109,
    "C10": 110, "C11": 111, "C12": 112, "C13": 113, "C14": 114, "C15": 115, "C16": 116,
    "C17": 117, "C19": 119,
}


def main():
    ap = argparse.ArgumentParser()
    ap.add_argument("prop")
    ap.add_argument("--tier", default=os.environ.get("VERIF_TIER", "quick"), choices=["quick", "thorough"])
    ap.add_argument("--seed", type=int, default=None)
    ap.add_argument("--runs", type=int, default=None)
    ap.add_argument("--workers", type=int, default=None)
    ap.add_argument("--max-wall", type=float, default=None)
    ap.add_argument("--replay", default=None)
    ap.add_argument("--fingerprints", default=None)
    ap.add_argument("--no-selftest", action="store_true")
    a = ap.parse_args()
    prop = a.prop.upper()
    seed = a.seed
    if seed is None:
        seed = int(os.environ["VERIF_SEED"]) if os.environ.get("VERIF_SEED") else DEFAULT_SEED.get(prop, 1)
    # hash randomisation must never influence a run: re-exec with a fixed hash seed
    if os.environ.get("PYTHONHASHSEED") is None or os.environ.get("OPENBLAS_NUM_THREADS") is None:
        env = dict(os.environ)
        env.setdefault("PYTHONHASHSEED", "0")
        # 16 workers x 16 BLAS threads thrash; the numba kernels keep their own thread control
        env["OPENBLAS_NUM_THREADS"] = "1"
        env["MKL_NUM_THREADS"] = "1"
        env.setdefault("OMP_WAIT_POLICY", "PASSIVE")  # oversubscribed OpenMP threads must not spin
        env["PYTHONPATH"] = REPO + ":" + HERE + (":" + env["PYTHONPATH"] if env.get("PYTHONPATH") else "")
        os.execve(sys.executable, [sys.executable] + sys.argv, env)
    os.environ.setdefault("NUMBA_NUM_THREADS", "16")
    from sim import driver
    from sim.common import HarnessError

    try:
        if a.replay:
            return driver.replay(prop, a.replay)
        if a.fingerprints:
            return driver.fingerprints(prop, seed, a.tier, [int(x) for x in a.fingerprints.split(",")])
        return driver.run_batch(prop, a.tier, seed, runs=a.runs, workers=a.workers, max_wall=a.max_wall, selftest=not a.no_selftest)
    except HarnessError as e:
        print(f"HARNESS-ERROR property={prop} {e}")
        return 2


if __name__ == "__main__":
    sys.exit(main())
