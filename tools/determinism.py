#!/venv/bin/python
"""Large-sample determinism proof: for every property run indices 0..N-1 (a) in a 16-worker spawn
pool under PYTHONHASHSEED=0 and (b) in a 5-worker pool of fresh interpreters under another
PYTHONHASHSEED, and diff the event-log fingerprints.  Writes /verif/determinism_report.json."""
import json
import os
import subprocess
import sys
import time

HERE = os.path.dirname(os.path.dirname(os.path.abspath(__file__)))
sys.path[:0] = [HERE, os.environ.get("TDGLSIM_REPO", "/repo")]
os.environ.setdefault("TQDM_DISABLE", "1")


def side(prop, seed, n, workers, hashseed):
    code = (
        "import sys, json, os; sys.path[:0]=[%r, %r]; os.environ.setdefault('NUMBA_NUM_THREADS','16')\n"
        "from sim import driver\n"
        "import multiprocessing as mp\n"
        "from concurrent.futures import ProcessPoolExecutor\n"
        "if __name__ == '__main__':\n"
        "    pool = ProcessPoolExecutor(max_workers=%d, mp_context=mp.get_context('spawn'), initializer=driver._worker_init)\n"
        "    idx = list(range(%d)); chunks=[idx[i:i+10] for i in range(0,len(idx),10)]\n"
        "    out = {}\n"
        "    for res in pool.map(driver.work_chunk, [%r]*len(chunks), [%d]*len(chunks), ['quick']*len(chunks), chunks, [set()]*len(chunks)):\n"
        "        for r in res: out[r['idx']] = r['fingerprint']\n"
        "    print('FP ' + json.dumps(out))\n"
    ) % (HERE, os.environ.get("TDGLSIM_REPO", "/repo"), workers, n, prop, seed)
    env = dict(os.environ, PYTHONHASHSEED=str(hashseed), OPENBLAS_NUM_THREADS="1", MKL_NUM_THREADS="1", OMP_WAIT_POLICY="PASSIVE", PYTHONPATH=os.environ.get("TDGLSIM_REPO", "/repo") + ":" + HERE)
    path = f"/tmp/_det_{prop}_{hashseed}.py"
    open(path, "w").write(code)
    p = subprocess.run([sys.executable, path], env=env, capture_output=True, text=True, timeout=7200)
    os.remove(path)
    line = [l for l in p.stdout.splitlines() if l.startswith("FP ")]
    if not line:
        raise SystemExit(f"{prop}: side failed: {p.stderr[-2000:]}")
    return {int(k): v for k, v in json.loads(line[-1][3:]).items()}


def main():
    props = sys.argv[1:] or ["C01", "C02", "C04", "C05", "C06", "C08", "C10", "C11", "C12", "C13", "C14", "C15", "C16", "C17", "C19"]
    report = {}
    for prop in props:
        n = 60 if prop in ("C09",) else 200
        seed = 7000 + int(prop[1:])
        t0 = time.time()
        a = side(prop, seed, n, 16, 0)
        b = side(prop, seed, n, 5, 424242)
        mism = sorted(i for i in a if a[i] != b.get(i))
        report[prop] = {"indices": n, "seed": seed, "workers": [16, 5], "hashseeds": [0, 424242], "mismatches": mism, "wall_s": round(time.time() - t0, 1)}
        print(prop, report[prop], flush=True)
    with open(os.path.join(HERE, "determinism_report.json"), "w") as f:
        json.dump(report, f, indent=1)
    return 1 if any(r["mismatches"] for r in report.values()) else 0


if __name__ == "__main__":
    sys.exit(main())
