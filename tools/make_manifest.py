#!/usr/bin/env python3
"""Regenerates /verif/MANIFEST.json from the registry below (kept next to the code so
the manifest never drifts from what is built)."""
import json
import os

HERE = os.path.dirname(os.path.dirname(os.path.abspath(__file__)))
PY = "env PYTHONHASHSEED=0 OPENBLAS_NUM_THREADS=1 MKL_NUM_THREADS=1 OMP_WAIT_POLICY=PASSIVE PYTHONPATH=/repo:/verif /venv/bin/python /verif/run_check.py"

NOT_APPLICABLE = {
    "C03": "pure linear-algebra identities of four operator builders for a given (mesh, vector potential): no step, schedule, retry, fault or I/O occurs in the statement; its run-visible consequences are decided under C01, C02, C10, C17 (DESIGN.md section 5)",
    "C07": "mesh geometry is a pure function of the polygons and meshing parameters, computed once before any run; nothing for a simulator to schedule or fault (DESIGN.md section 5)",
    "C18": "polygon algebra and affine transforms are pure functions of shapes, never on the path of a run (DESIGN.md section 5)",
    "C20": "post-processing fields are pure functions of stored arrays (linearity, SI prefactor, quadrature): no schedule, fault or history in the statement (DESIGN.md section 5)",
}

# id -> (level category, level text, level note, technique, design ref, quick timeout s, thorough timeout s)
CHECKS = {
    "C05": (
        "exploration",
        "The first 2496 runs of every batch enumerate the bounded grid of the quantifier exhaustively (N 0..12 x k 1..N+2 x thermalisation on/off x 0/2/3 probes x screening on/off x fixed/scripted dt; completeness is reported in the evidence as enumerated_grid), the remaining runs are a seeded search over recording-loop histories (k, N up to 40, dt sequences incl. float-accumulation edges, thermalisation, probes, screening, output destination, real adaptive runs with injected refusals) executed by the real Runner/DataHandler/RunningState/Solution code; every frame, label, time and per-step record of every run is compared with an executable recorder model fed from the update seam. Sampling, not enumeration: a clean batch is evidence, not proof.",
        "Trusted: the recorder model (sim/recorder.py, written from the property text), h5py read-back, the update-seam capture. Engine B replaces the physics update by a stub whose values encode the update count; Engine A runs use the real update.",
        "deterministic simulation: seeded history generation + recorder reference model + replayable minimised scenarios",
        "DESIGN.md 4/C05",
        600,
        7200,
    ),
    "C01": (
        "exploration",
        "Seeded Engine-A runs (real Device/mesh/TDGLSolver/Runner) over devices with 2..4 terminals and 0..2 holes, balanced constant/piecewise/ramped currents with integer, dyadic and non-representable amplitudes, static and time-dependent fields, screening, adaptivity, thermalisation, unit systems and injected refusals; after EVERY update (not only recorded frames) the net outflow of every cell is compared with the cell's share of the requested terminal current by an independent divergence assembly and an SI unit model; rejection of a balanced assignment is a violation. Sampling, not proof.",
        "Trusted: sim/refphys.py (divergence, boundary-edge detection by triangle incidence, terminal shares via shapely), sim/si.py (CODATA constants; 1e-7 relative for SI comparisons, 1e-9 for per-cell continuity), mesh areas/dual lengths as given (C07 not claimed).",
        "deterministic simulation: seeded drive schedules + fault injection (refusals), per-step conservation invariant against an independent reference model",
        "DESIGN.md 4/C01", 600, 7200,
    ),
    "C02": (
        "exploration",
        "Call-seam invariant on reached states only: every call of the documented TDGLSolver.solve_for_psi_squared in seeded Engine-A runs (gamma 0..10, epsilon -1..1, dt 1e-6..10, strong drives, screening, pinned zeros) is checked against eqs. z, w, quad-2, quad-root, psi-sol: identity psi'+z s=w, s=|psi'|^2 real >= 0, '+' branch, refusal iff a negative discriminant (extended precision, 1e-12 dead band). The property's quantifier (whole per-site input space) is NOT covered; overflow range excluded as the property states.",
        "Trusted: sim/refphys.py z_w/discriminant/plus_root written from docs/background.rst; the Laplacian action is taken from the call's own argument (the property allows any covariant Laplacian action). Injected refusals are tagged and excluded.",
        "deterministic simulation: online invariant at the psi-update seam over seeded runs",
        "DESIGN.md 4/C02", 600, 7200,
    ),
    "C06": (
        "exploration",
        "Seeded Engine-A runs on devices with terminals, terminal_psi in {0, None, real/complex nonzero}, refresh-heavy drives, screening, injected refusals, thermalisation: after every update and in every frame psi on independently recomputed terminal sites equals the configured value (bitwise for 0, 1e-12 otherwise); before every psi attempt the identity rows of the Laplacian are exactly the terminal sites (none when unset) and the update identity holds on every row actually handed over.",
        "Trusted: terminal sites recomputed with shapely from the terminal polygons; C02 oracle for the free rows.",
        "deterministic simulation: per-step invariant across operator-refresh histories with injected refusals",
        "DESIGN.md 4/C06", 600, 7200,
    ),
    "C10": (
        "exploration",
        "Seeded refresh histories: (a) inside Engine-A runs with time-dependent fields (fast, slow to 1e-9 relative per step, piecewise, returning, through zero) and/or screening, after every in-place refresh and immediately before every psi attempt the covariant gradient/Laplacian in use are compared bitwise (values and sparsity) with a rebuild from the solver's link exponents and to 1e-10 with a dense reference Laplacian for the vector potential the environment has in force; (b) bare MeshOperators histories of length 1..6 with repeats, zeros, pinned/unpinned rows.",
        "Trusted: dense reference Laplacian/gradient (sim/refphys.py), the expression interpreter of the drive (sim/build.py eval_tree).",
        "deterministic simulation: seeded update histories, refresh-vs-rebuild differential oracle at the seam",
        "DESIGN.md 4/C10", 600, 7200,
    ),
    "C12": (
        "exploration",
        "Seeded Engine-A runs over dt_init 1e-6..10, dt_max, window 1..20, multiplier, retry budget 0..10, adaptive on/off, thermalisation, natural refusals from strong drives and injected refusals on chosen (step, attempt) pairs incl. bursts beyond the retry budget; a reference model of the controller (documented formula) is replayed on the observed history: attempted dt = proposed x m^r, used dt in (0, dt_max], == dt_init when not adaptive, next proposal == documented rule, per-step record == used dt, exhaustion raises and nothing runs afterwards.",
        "Trusted: the controller model in sim/checkers.py C12TimeStep (from docs/background.rst 'Adaptive time step'); warm-up uses the per-stage step index as the code and the docs do.",
        "deterministic simulation: fault injection (buggify refusals) + reference-model replay of the dt controller",
        "DESIGN.md 4/C12", 600, 7200,
    ),
    "C13": (
        "exploration",
        "Seeded Engine-A runs with screening (tolerance 1e-4..1e-2, step size/drag varied, static/time-dependent fields, terminals, iteration budgets below need) and screening-off runs: every iteration the numba kernel output equals a direct SI double sum over the call's own arguments and the reported mismatch equals the recomputed one; every accepted step has mismatch < tolerance at its last iteration and a stored potential consistent with the stored currents; non-convergence raises RuntimeError and records nothing; screening off => induced potential identically zero.",
        "Trusted: direct double sum + SI prefactor (sim/refphys.py, sim/si.py). Known finding C13-momentum-exit is printed, not failed.",
        "deterministic simulation: per-iteration invariant at the screening seam, forced non-convergence faults",
        "DESIGN.md 4/C13", 900, 7200,
    ),
    "C17": (
        "exploration",
        "Quiescent-environment runs (no field, no current, epsilon=1, unpinned terminals) on random irregular/smoothed/holed meshes, gamma/u varied, adaptive on/off, screening on/off, thermalisation, injected refusals, up to 300 steps: after every update | |psi|-1 |, currents, mu-mean(mu), induced potential and phase spread <= 1e-9 (observed <= 2e-16), and with adaptivity dt == dt_max from step window+2 on. Time steps beyond the explicit-Euler stability bound are discarded (there rounding noise is amplified exponentially regardless of the scheme).",
        "Exactness is decided as 'to accumulated rounding'; see DESIGN.md C17.",
        "deterministic simulation: stationarity invariant + bounded liveness of the dt controller under injected refusals",
        "DESIGN.md 4/C17", 600, 7200,
    ),
    "C15": (
        "fault_enumeration",
        "Crash-consistency check. The first 840 runs of every batch enumerate EVERY stage-boundary crash point of a bounded family (k 1..3 x N 1..5 x {before/after update, before/after frame writer} x step 0..N x {RuntimeError, KeyboardInterrupt} x {temp dir, explicit path}; completeness reported as enumerated_crash_points in the evidence); the remaining runs sample the larger space: one injected stop per run (RuntimeError, MemoryError, ENOSPC, KeyboardInterrupt with/without pause and scripted answers) at stage-boundary points (before/after the update, before/after the frame writer) and at line-level pre-emption points (sys.settrace) inside the update and frame-writer functions, at every step of bounded runs in both stages, with explicit output paths (plain, nested, dotted) or none, with pre-existing files (same name, serial names, stale .tmp, unrelated). After solve() returned or raised: no HDF5 object left open, pre-existing files byte-identical, exactly one new output file, no .tmp / temp dir left, output readable, frames == those recorded before the stop (complete, content and per-step records equal to the fault-free twin), the injected error object propagates unchanged, cancellation returns a usable, reloadable partial solution (None during thermalisation / before the first frame). Beyond the enumerated family the crash-point space (line-level points, fault sequences, Engine A) is sampled, not exhausted.",
        "Trusted: fault-free twin of the same scenario (deterministic), recorder model, directory listing + h5py.h5f.get_obj_count. ENOSPC is raised at the call boundary, not by the kernel at flush time; torn writes inside one HDF5 call and process death are not simulated.",
        "deterministic simulation with fault injection: crash points at stage boundaries and line-level pre-emption, file-system/open-handle oracle, fault-free twin",
        "DESIGN.md 4/C15", 900, 14400,
    ),
    "C11": (
        "exploration",
        "Differential simulation: (a) one seeded physics scenario executed under 2-4 observer configurations (save_every, output file vs temp dir, probes on/off on the same mesh object, tqdm vs log-line progress with a simulated perf_counter, monitor flag with a Popen stub, pause flag, thread count, wall-clock scripts incl. backward jumps): every update's output and dt, and all frames with equal step label, must be bit-identical, and each frame equals the state after that many updates; (b) crash-restart: fixed-step run of N1 steps, durable file reloaded by Solution.from_hdf5 (fresh objects), N2 more steps seeded from it, every resumed frame bit-identical to the uninterrupted N1+N2 run, for sampled split points of runs up to 16 (some to 40) steps, screening on/off, static drives.",
        "Trusted: the update-seam capture and h5py read-back. Resume is only defined for static drives (time restarts at 0).",
        "deterministic simulation: differential twin runs across observer configurations; crash-restart through the durable file",
        "DESIGN.md 4/C11", 900, 7200,
    ),
    "C09": (
        "exploration",
        "The schedule dimension is the execution environment: each seeded scenario (screening on in ~70% so the parallel numba kernel runs, adaptive, time-dependent drives, callable currents so the random validator runs) is executed in 4-6 FRESH interpreters differing in PYTHONHASHSEED, numba threads 1..16 (incl. 16 threads pinned to one core), parallel chunk size, CPU affinity, cwd and output location (absolute / relative / temp dir), simulated wall-clock script, validator RNG seed and unrelated work done in the process first (another simulation, consumed global RNGs, HDF5_USE_FILE_LOCKING set); sha256 over mesh arrays, every update's output, every frame, fixed values and every dataset/attribute of the output file except timestamp/time_created/total_seconds, the requested output path and the version_info group must be identical.",
        "The interleaving of threads inside the numba/OpenMP kernel is sampled (thread count, chunk size, affinity), not controlled by the simulator (stated limit, DESIGN.md 10). Cloudpickled callables (opaque blobs) are excluded from the file digest.",
        "deterministic simulation: differential executions of one seed across fresh interpreters and execution environments",
        "DESIGN.md 4/C09", 900, 7200,
    ),
    "C19": (
        "exploration",
        "Each seeded run applies one defect of the property's enumerated classes to a well-posed scenario (unbalanced constant currents with relative imbalance 1..1e-6; time-dependent currents unbalanced always or on a window of 0.3..1e-6 of the run; epsilon > 1 by 0.5..1e-6, constant and spatial; every inconsistent option SolverOptions.validate names; a terminal polygon strictly inside the film; a seed solution from a device with different film/layer/probes/terminals; vector potentials of the wrong shape; self-intersecting / two-point polygons; duplicate/missing names, probes outside the film or of the wrong shape), with/without an explicit output path, empty/populated directory and a scheduled validator RNG seed. Oracle on the event log: an exception is raised, no file-system event (h5py.File, temporary directory) precedes it, no update ran, the scratch tree is unchanged and no HDF5 object is open.",
        "Trusted: the file-event seams of the simulator (runner.h5py, runner.tempfile) and the recursive directory listing. Known finding C19-sampling-validator (narrow imbalance windows) is printed, not failed.",
        "deterministic simulation: defect injection into the problem statement, ordering oracle on the recorded file-system event log",
        "DESIGN.md 4/C19", 600, 7200,
    ),
    "C14": (
        "exploration",
        "Durability of what simulated runs produce: after seeded Engine-A runs (completed or cancelled by an injected KeyboardInterrupt; terminal_psi None/0/complex; drives as dicts, closures, callable objects, Parameters, composite and time-dependent expression trees; devices with/without holes/terminals/probes; three unit systems) a seeded sequence of storage operations (reload, reload at step 0, copy to a new file, device to file with/without mesh, mesh to group plain/compressed, pickle device, pickle parameters, library equality, use the reloaded solution as a seed) is followed by a simulated restart and a deep, independent comparison with the in-memory originals: mesh arrays bitwise (1e-12 for a mesh recomputed from its triangulation), options field by field incl. None, data of every recorded step against what the writer was handed, dynamics, times, drives evaluated at seeded points/times, time_dependent flags.",
        "Only state produced by runs is round-tripped (sampled devices/options/trees). The library's allclose-based __eq__ is not the oracle (it is itself exercised by the 'equality' operation). Saving a solution without its mesh (save_mesh=False) is not claimed to be loadable.",
        "deterministic simulation: seeded storage-operation sequences with simulated restart, deep comparison against in-memory originals",
        "DESIGN.md 4/C14", 900, 7200,
    ),
    "C16": (
        "exploration",
        "Solver-facing part only: the applied vector potential of seeded real runs is a random expression tree (depth <= 3; ConstantField / gauge-gradient vector parameters, LinearRamp / piecewise / sinusoidal time-dependent scalars, ints, floats; + - * / ** in both operand orders; operands shared between branches). Construction, solve() and cache clearing must not raise; composite.time_dependent == 'some leaf is'; the applied potential of every update (and the static fixed value) equals the value of an independent interpreter of the tree (1e-12 relative); every operand cache is empty after the run; the pickled and the reloaded tree compare equal, keep the flag and evaluate equal.",
        "The algebra over all expression trees and argument shapes is an input-space statement and is not claimed. Trusted: sim/build.py eval_tree (calls the leaf functions directly, combines with operator.*).",
        "deterministic simulation: generated drive programs executed by the real solver, per-step differential oracle against an interpreter",
        "DESIGN.md 4/C16", 600, 7200,
    ),
    "C04": (
        "exploration",
        "Run-level part only, by differential simulation: each seeded Engine-A scenario (with/without terminals and bias, static and time-dependent fields, screening, adaptivity, thermalisation, injected refusals) is executed twice, the second time with A -> A + grad chi and psi_init -> psi_init e^{i chi} (chi linear = uniform shift of A, or quadratic, for which the midpoint rule makes the discrete transform exact), faults identical; every update of both runs is compared: |psi|, supercurrent, normal current, mu up to a constant, induced potential, dt, and psi after removing the gauge phase and one global phase (1e-8 at the first update, allowing rounding differences to grow 4x per update, capped at 1e-3).",
        "Operator-level covariance for arbitrary site functions chi is an input-space statement and not claimed. Non-zero terminal_psi is excluded (a pinned value is not gauge covariant); time steps beyond the explicit-Euler stability bound are discarded; twins that part ways at a refusal / convergence threshold decided by rounding are truncated there.",
        "deterministic simulation: differential twin runs related by the symmetry, identical seeds and fault plans",
        "DESIGN.md 4/C04", 900, 7200,
    ),
    "C08": (
        "exploration",
        "Run-level part: (a) twin runs of one physical scenario stated in two unit systems from {um,nm,mm}x{mT,uT,T}x{uA,nA,mA} on the same dimensionless mesh object: every update's dimensionless output compared (mu up to its additive constant, psi up to a global phase; 1e-8 growing 4x per update, capped 1e-3) and Solution.current_density in A/m compared to 1e-8; (b) absolute SI oracles on every run, so a factor lost in both twins is still seen: the stored dimensionless potential of a uniform field integrates around every mesh triangle to 2 pi flux/Phi_0, the boundary flux density on every terminal equals 4 I/(K0 L), the screening kernel equals (mu_0/4pi) sum K a/r, Solution.current_density equals K0 x site-averaged dimensionless current, Solution.field_at_position in T equals the direct sum over the cells' sheet currents with the film at its height z0 (CODATA constants from scipy, 1e-7).",
        "Post-processing unit conversions (C20) are not covered. Non-zero terminal_psi excluded from twins (the mu constant left to rounding by the singular Neumann solve becomes physical there).",
        "deterministic simulation: unit system as a per-run swarm knob, differential twin runs + absolute SI reference model",
        "DESIGN.md 4/C08", 900, 7200,
    ),
}


LIFECYCLE_NOTE = (
    " Every Engine-A scenario may also carry seeded object life cycles (DESIGN.md 2.7): a Device that was re-meshed, moved in place,"
    " restored from HDF5, copied / deep-copied / pickled / identity-transformed, or simulated on before; a second solver alive on the"
    " same Device; the same solver solved twice; a SolverOptions object used before or configured attribute by attribute; the"
    " tdgl.solve() entry point; devices stated in metres (not C08); films at a height z0 != 0; and a seeded schedule decision"
    " 'another simulation runs here': a second solve on the same Device object executed to completion at a seam of the run"
    " (between steps, before a psi update / screening iteration / operator refresh, around a frame write) - DESIGN.md 2.3."
)


EXTRA_TEXT = {
    "C02": " Another simulation of the same device is scheduled inside psi updates of the run (guest at the n-th line within the update of psi) in 12 % of the runs.",
    "C05": " One history in twelve is a cancelled bounded run (two thirds cancelled in the update, one third inside the frame writer).",
    "C08": " 3 % of the scenarios use a mesh of 5600..8400 sites (more than 2^14 edges).",
    "C13": " 8 % of the runs are bare calls of the accelerated kernel on random currents / areas / point sets of 1..12289 source sites against the direct double sum.",
    "C14": " Storage operations include 'the caller edits its Device in place after the solve' (the Solution held must still equal its file).",
    "C16": " Values returned earlier in an evaluation history are kept and must not be changed by later evaluations.",
    "C17": " Strongly disturbed guest simulations (contacts pinned to zero, suppressed epsilon, a field) are scheduled inside steps of the quiescent run.",
    "C19": " The floating-terminal class is also instantiated on a device that re-uses the mesh of a well-posed sibling that was looked at or simulated on first.",
}


def main():
    checks = []
    for pid, (cat, text, note, tech, ref, tq, tt) in sorted(CHECKS.items()):
        if not os.path.exists(os.path.join(HERE, "sim", "props", pid.lower() + ".py")):
            continue
        checks.append(
            {
                "property_id": pid,
                "quick_cmd": f"timeout {tq} {PY} {pid} --tier quick",
                "thorough_cmd": f"timeout {tt} {PY} {pid} --tier thorough",
                "evidence_file": f"/verif/evidence/{pid}.json",
                "replay_cmd_template": f"timeout 600 {PY} {pid} --replay {{path}}",
                "engine": "tdglsim",
                "level_claimed": {"category": cat, "text": text + EXTRA_TEXT.get(pid, ""), "design_ref": ref},
                "level_note": note + LIFECYCLE_NOTE,
                "technique": tech,
            }
        )
    claimed = {c["property_id"] for c in checks}
    na = [{"property_id": k, "reason": v} for k, v in sorted(NOT_APPLICABLE.items())]
    for i in range(1, 21):
        pid = f"C{i:02d}"
        if pid not in claimed and pid not in NOT_APPLICABLE:
            na.append({"property_id": pid, "reason": "not claimed yet: the simulated check for this property is designed (DESIGN.md section 4) but not built at this commit"})
    na.sort(key=lambda d: d["property_id"])
    man = {
        "version": 1,
        "setup_cmd": "env PYTHONPATH=/repo:/verif /venv/bin/python -c \"import tdgl, numpy, h5py, numba, scipy; import sim.driver; print('tdglsim ok', tdgl.__file__)\"",
        "hooks": {
            "guard": "PY_TDGL_VERIF",
            "enable": "no source hook exists: every seam is an existing module attribute / public method patched from /verif at run time (DESIGN.md 1.2); checks import tdgl from /repo's working tree via PYTHONPATH=/repo",
            "baseline_off_cmd": "cd /repo && /venv/bin/python -m pytest -ra -q -p no:cacheprovider --timeout=900 --continue-on-collection-errors",
            "source_commits": [],
            "add_only": True,
        },
        "engines": [
            {
                "name": "tdglsim",
                "path": "/verif/sim",
                "serves_properties": sorted(claimed),
                "kind_free_text": "deterministic in-process simulator of py-tdgl runs: seeded scenario generator, seams on the update / psi attempt / screening iteration / refresh / frame writer / files / clock / RNG, fault injection (refusals, exceptions, KeyboardInterrupt, ENOSPC at stage boundaries and line-level pre-emption points, name collisions, clock jumps), reference models, greedy minimiser, replay files",
            }
        ],
        "checks": checks,
        "not_applicable": na,
        "notes": "Technique family: deterministic simulation with fault injection. Exit codes: 0 held / 1 VIOLATION / 2 HARNESS-ERROR. Known findings: /verif/known_findings.json.",
    }
    with open(os.path.join(HERE, "MANIFEST.json"), "w") as f:
        json.dump(man, f, indent=1)
    print("claimed:", sorted(claimed))


if __name__ == "__main__":
    main()
