#!/usr/bin/env python3
"""Regenerates /verif/MANIFEST.json from the registry below (kept next to the code so
the manifest never drifts from what is built)."""
import json
import os

HERE = os.path.dirname(os.path.dirname(os.path.abspath(__file__)))
PY = "env PYTHONHASHSEED=0 OPENBLAS_NUM_THREADS=1 MKL_NUM_THREADS=1 PYTHONPATH=/repo:/verif /venv/bin/python /verif/run_check.py"

NOT_APPLICABLE = {
    "C03": "pure linear-algebra identities of four operator builders for a given (mesh, vector potential): no step, schedule, retry, fault or I/O occurs in the statement; its run-visible consequences are decided under C01, C02, C10, C17 (DESIGN.md section 5)",
    "C07": "mesh geometry is a pure function of the polygons and meshing parameters, computed once before any run; nothing for a simulator to schedule or fault (DESIGN.md section 5)",
    "C18": "polygon algebra and affine transforms are pure functions of shapes, never on the path of a run (DESIGN.md section 5)",
    "C20": "post-processing fields are pure functions of stored arrays (linearity, SI prefactor, quadrature): no schedule, fault or history in the statement (DESIGN.md section 5)",
}

# id -> (level category, level text, level note, technique, design ref, quick timeout s, thorough timeout s)
CHECKS = {
    "C05": (
        "exploration",
        "Seeded search over recording-loop histories (k, N, dt sequences, thermalisation, probes, screening, output destination) executed by the real Runner/DataHandler/RunningState/Solution code; every frame, label, time and per-step record of every run is compared with an executable recorder model fed from the update seam. Sampling, not enumeration: a clean batch is evidence, not proof.",
        "Trusted: the recorder model (sim/recorder.py, written from the property text), h5py read-back, the update-seam capture. Engine B replaces the physics update by a stub whose values encode the update count; Engine A runs use the real update.",
        "deterministic simulation: seeded history generation + recorder reference model + replayable minimised scenarios",
        "DESIGN.md 4/C05",
        600,
        7200,
    ),
}


def main():
    checks = []
    for pid, (cat, text, note, tech, ref, tq, tt) in sorted(CHECKS.items()):
        if not os.path.exists(os.path.join(HERE, "sim", "props", pid.lower() + ".py")):
            continue
        checks.append(
            {
                "property_id": pid,
                "quick_cmd": f"timeout {tq} {PY} {pid} --tier quick",
                "thorough_cmd": f"timeout {tt} {PY} {pid} --tier thorough",
                "evidence_file": f"/verif/evidence/{pid}.json",
                "replay_cmd_template": f"timeout 600 {PY} {pid} --replay {{path}}",
                "engine": "tdglsim",
                "level_claimed": {"category": cat, "text": text, "design_ref": ref},
                "level_note": note,
                "technique": tech,
            }
        )
    claimed = {c["property_id"] for c in checks}
    na = [{"property_id": k, "reason": v} for k, v in sorted(NOT_APPLICABLE.items())]
    for i in range(1, 21):
        pid = f"C{i:02d}"
        if pid not in claimed and pid not in NOT_APPLICABLE:
            na.append({"property_id": pid, "reason": "not claimed yet: the simulated check for this property is designed (DESIGN.md section 4) but not built at this commit"})
    na.sort(key=lambda d: d["property_id"])
    man = {
        "version": 1,
        "setup_cmd": "env PYTHONPATH=/repo:/verif /venv/bin/python -c \"import tdgl, numpy, h5py, numba, scipy; import sim.driver; print('tdglsim ok', tdgl.__file__)\"",
        "hooks": {
            "guard": "PY_TDGL_VERIF",
            "enable": "no source hook exists: every seam is an existing module attribute / public method patched from /verif at run time (DESIGN.md 1.2); checks import tdgl from /repo's working tree via PYTHONPATH=/repo",
            "baseline_off_cmd": "cd /repo && /venv/bin/python -m pytest -ra -q -p no:cacheprovider --timeout=900 --continue-on-collection-errors",
            "source_commits": [],
            "add_only": True,
        },
        "engines": [
            {
                "name": "tdglsim",
                "path": "/verif/sim",
                "serves_properties": sorted(claimed),
                "kind_free_text": "deterministic in-process simulator of py-tdgl runs: seeded scenario generator, seams on the update / psi attempt / screening iteration / refresh / frame writer / files / clock / RNG, fault injection (refusals, exceptions, KeyboardInterrupt, ENOSPC at stage boundaries and line-level pre-emption points, name collisions, clock jumps), reference models, greedy minimiser, replay files",
            }
        ],
        "checks": checks,
        "not_applicable": na,
        "notes": "Technique family: deterministic simulation with fault injection. Exit codes: 0 held / 1 VIOLATION / 2 HARNESS-ERROR. Known findings: /verif/known_findings.json.",
    }
    with open(os.path.join(HERE, "MANIFEST.json"), "w") as f:
        json.dump(man, f, indent=1)
    print("claimed:", sorted(claimed))


if __name__ == "__main__":
    main()
