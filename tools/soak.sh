#!/bin/bash
# usage: soak.sh "<seeds>" [props...]   runs quick checks with several VERIF_SEED values; lists non-zero exits
SEEDS=${1:-"1 2 3"}; shift
PROPS=${@:-"C01 C02 C04 C05 C06 C08 C09 C10 C11 C12 C13 C14 C15 C16 C17 C19"}
cd "$(dirname "$0")/.."
for s in $SEEDS; do for p in $PROPS; do
  out=$(VERIF_SEED=$s timeout 1500 /venv/bin/python run_check.py $p --tier quick 2>&1); rc=$?
  echo "seed=$s $p exit=$rc $(echo "$out" | tail -1)"
  if [ $rc -ne 0 ]; then echo "$out" | grep -v "^KNOWN" | cut -c1-400 | head -12; fi
done; done
