#!/bin/bash
# For every /verif/seeded/<name>/patch.diff: apply it in a scratch worktree (never /repo), run the
# repository's test-suite subset and compare the passing set with the unchanged tree's.
set -u
OUT=/tmp/scratch/seeded_tests; mkdir -p $OUT
export TQDM_DISABLE=1 OPENBLAS_NUM_THREADS=1
run_tests() { # dir -> file with sorted passed ids
  (cd $1 && timeout 2400 env PYTHONPATH=$1 /venv/bin/python -m pytest tdgl/test -q -p no:cacheprovider --timeout=900 --ignore=tdgl/test/test_visualization.py --ignore=tdgl/test/test_visualize.py -rA 2>&1 | grep "^PASSED" | sort > $2)
}
WT=/tmp/scratch/wt_base
git -C /repo worktree add -q --detach $WT HEAD 2>/dev/null
run_tests $WT $OUT/base.txt
git -C /repo worktree remove --force $WT
one() {
  name=$1; WT=/tmp/scratch/wt_$name
  git -C /repo worktree add -q --detach $WT HEAD || return
  if (cd $WT && git apply /verif/seeded/$name/patch.diff); then
    run_tests $WT $OUT/$name.txt
    missing=$(comm -23 $OUT/base.txt $OUT/$name.txt | wc -l)
    echo "$name base=$(wc -l < $OUT/base.txt) with_change=$(wc -l < $OUT/$name.txt) previously_passing_now_failing=$missing" > $OUT/$name.result
  else
    echo "$name PATCH-DOES-NOT-APPLY" > $OUT/$name.result
  fi
  git -C /repo worktree remove --force $WT
}
export -f one run_tests; export OUT
ls /verif/seeded | grep -E -e "${1:-.}" | grep -v MATRIX | xargs -P 4 -I{} bash -c 'one {}'
cat $OUT/*.result
