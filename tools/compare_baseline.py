#!/usr/bin/env python3
"""Compare a junit xml of the repository's test suite with /root/.vp/BASELINE.json."""
import json, sys
import xml.etree.ElementTree as ET
b = json.load(open('/root/.vp/BASELINE.json'))
want = set(b['stable_pass'])
passed = set()
for tc in ET.parse(sys.argv[1]).getroot().iter('testcase'):
    name = tc.get('classname') + '::' + tc.get('name')
    if not any(c.tag in ('failure', 'error', 'skipped') for c in tc):
        passed.add(name)
missing = sorted(want - passed)
print('baseline stable_pass', len(want), 'passed now', len(passed), 'missing', len(missing), 'new passes', len(passed - want))
for m in missing[:20]:
    print('  MISSING', m)
sys.exit(1 if missing else 0)
