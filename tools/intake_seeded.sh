#!/bin/bash
# usage: intake_seeded.sh <PROP> <round> <source dir with patch.diff demo.py meta.json> [more PROPs to run...]
# Copies a sub-agent's seeded change to /verif/seeded/<PROP>-<round>, confirms the demonstration in a
# scratch worktree (exit 0 unchanged, non-zero with the change) and runs the quick check(s) against it.
set -u
P=$1; R=$2; SRC=$3; shift 3
NAME=$P-$R; D=/verif/seeded/$NAME; S=/tmp/scratch/intake; mkdir -p $D $S/out
if [ "$SRC" != "-" ]; then cp $SRC/patch.diff $SRC/demo.py $SRC/meta.json $D/ || exit 9; fi  # "-": re-test an already stored change
WT=$S/wt_$NAME
git -C /repo worktree add -q --detach $WT HEAD || exit 9
export TQDM_DISABLE=1 OPENBLAS_NUM_THREADS=1 OMP_NUM_THREADS=1 NUMBA_NUM_THREADS=2
(cd /tmp && timeout 600 env PYTHONPATH=$WT /venv/bin/python $D/demo.py > $S/$NAME.clean.log 2>&1); c0=$?
(cd $WT && git apply $D/patch.diff) || { echo "$NAME PATCH-DOES-NOT-APPLY"; git -C /repo worktree remove --force $WT; exit 8; }
(cd /tmp && timeout 600 env PYTHONPATH=$WT /venv/bin/python $D/demo.py > $S/$NAME.mut.log 2>&1); c1=$?
echo "$NAME demo: unchanged exit=$c0 changed exit=$c1  ($(tail -1 $S/$NAME.mut.log | cut -c1-200))"
unset OMP_NUM_THREADS NUMBA_NUM_THREADS
for Q in $P "$@"; do
  out=$(cd /verif && TDGLSIM_REPO=$WT TDGLSIM_OUT=$S/out/$NAME timeout 1800 /venv/bin/python run_check.py $Q --tier quick --workers ${WORKERS:-8} 2>&1); rc=$?
  rules=$(echo "$out" | grep -o "rule=[a-z0-9_-]*" | sort -u | tr '\n' ' ')
  if [ $rc -eq 1 ]; then echo "$NAME CAUGHT by $Q: $rules"; elif [ $rc -eq 2 ]; then echo "$NAME HARNESS-ERROR ($Q): $(echo "$out" | grep HARNESS | head -2 | cut -c1-300)"; else echo "$NAME MISSED by $Q (rc=$rc) $(echo "$out" | tail -1 | cut -c1-160)"; fi
done
git -C /repo worktree remove --force $WT
rm -rf $S/out/$NAME
