#!/bin/bash
# Parallel variant of seeded_matrix.sh: every seeded change is applied in its own scratch worktree
# (never /repo), the quick check of its property runs against that tree with TDGLSIM_REPO and writes
# its evidence/replays under a scratch TDGLSIM_OUT (never /verif/evidence).
# usage: seeded_matrix_par.sh [grep-pattern] [jobs] [workers-per-check]
PAT=${1:-.}; J=${2:-3}; W=${3:-5}
S=/tmp/scratch/matrix; mkdir -p $S/out
one() {
  name=$1; prop=${name%%-*}; WT=$S/wt_$name
  git -C /repo worktree add -q --detach $WT HEAD 2>/dev/null || { echo "$name WORKTREE-FAILED"; return; }
  if (cd $WT && git apply /verif/seeded/$name/patch.diff 2>/dev/null); then
    out=$(cd /verif && TDGLSIM_REPO=$WT TDGLSIM_OUT=$S/out/$name timeout 1800 /venv/bin/python run_check.py $prop --tier quick --workers $W 2>&1); rc=$?
    rules=$(echo "$out" | grep -o "rule=[a-z0-9_-]*" | sort -u | tr '\n' ' ')
    if [ $rc -eq 1 ]; then echo "$name CAUGHT by $prop: $rules"; elif [ $rc -eq 2 ]; then echo "$name HARNESS-ERROR ($prop): $(echo "$out" | grep HARNESS | head -1 | cut -c1-200)"; else echo "$name MISSED by $prop (rc=$rc) $(echo "$out" | tail -1 | cut -c1-160)"; fi
  else
    echo "$name PATCH-DOES-NOT-APPLY"
  fi
  git -C /repo worktree remove --force $WT
  rm -rf $S/out/$name
}
export -f one; export S W
ls /verif/seeded | grep -v MATRIX | grep -E -e "$PAT" | xargs -P $J -I{} bash -c 'one {}'
