#!/bin/bash
# usage: try_seeded.sh <dir with patch.diff + demo.py> <PROP> [more PROPs...]
# Applies the seeded change to /repo, runs the demonstration and the quick checks, reverts.
set -u
D=$1; shift
cd /repo || exit 9
if ! git diff --quiet; then echo "REPO DIRTY"; exit 9; fi
export TQDM_DISABLE=1 OPENBLAS_NUM_THREADS=1
echo "== demo on unchanged tree"; (cd /tmp && timeout 300 env PYTHONPATH=/repo /venv/bin/python $D/demo.py >/tmp/demo_clean.log 2>&1); echo "exit=$?"
git apply --check $D/patch.diff || { echo "PATCH DOES NOT APPLY"; exit 8; }
git apply $D/patch.diff
trap 'git -C /repo checkout -- . ; echo reverted' EXIT
echo "== demo with change"; (cd /tmp && timeout 300 env PYTHONPATH=/repo /venv/bin/python $D/demo.py >/tmp/demo_mut.log 2>&1); echo "exit=$?"; tail -3 /tmp/demo_mut.log
for P in "$@"; do
  echo "== check $P"
  (cd /verif && timeout 1200 /venv/bin/python run_check.py $P --tier quick 2>&1 | grep -v "^KNOWN" | cut -c1-400 | tail -6); 
done
