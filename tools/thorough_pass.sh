#!/bin/bash
# usage: thorough_pass.sh <seed> <max-wall seconds per property> [workers] [props...]
# Runs the thorough tier of every claimed property under another VERIF_SEED with a wall cap, writing
# evidence/replays under ./pass_out (never /verif/evidence). For hunting false alarms in the background
# (vp run -- tools/thorough_pass.sh 9 600).
S=${1:-9}; W=${2:-600}; K=${3:-16}; shift 3 2>/dev/null
P=${@:-C01 C02 C04 C05 C06 C08 C09 C10 C11 C12 C13 C14 C15 C16 C17 C19}
HERE=$(cd "$(dirname "$0")/.." && pwd)
export TDGLSIM_OUT=$HERE/pass_out; mkdir -p $TDGLSIM_OUT
for p in $P; do
  timeout $((W + 900)) /venv/bin/python $HERE/run_check.py $p --tier thorough --seed $S --max-wall $W --workers $K 2>&1 | grep -v "^KNOWN-FINDING" | cut -c1-600 | tail -8
  echo "== $p rc=${PIPESTATUS[0]}"
done
