#!/bin/bash
# Applies every seeded change under /verif/seeded to /repo in turn, runs the quick check of its own
# property, reverts, and prints one line per change (CAUGHT / MISSED + rules).  ~1 min per change.
# MATRIX_REPO=<scratch worktree of /repo> keeps /repo itself untouched (the checks then read that tree).
R=${MATRIX_REPO:-/repo}
if [ "$R" != /repo ]; then export TDGLSIM_REPO=$R; fi
cd $R || exit 9
if ! git diff --quiet; then echo "REPO DIRTY"; exit 9; fi
for d in /verif/seeded/*${ONLY:-}*/; do
  name=$(basename $d); prop=${name%%-*}
  git apply --check $d/patch.diff 2>/dev/null || { echo "$name PATCH-DOES-NOT-APPLY"; continue; }
  git apply $d/patch.diff
  out=$(cd /verif && timeout 1500 /venv/bin/python run_check.py $prop --tier quick 2>&1); rc=$?
  git checkout -- .
  rules=$(echo "$out" | grep -o "rule=[a-z0-9-]*" | sort -u | tr '\n' ' ')
  if [ $rc -eq 1 ]; then echo "$name CAUGHT by $prop: $rules"; elif [ $rc -eq 2 ]; then echo "$name HARNESS-ERROR ($prop): $(echo "$out" | grep HARNESS | head -1 | cut -c1-160)"; else echo "$name MISSED by $prop"; fi
done
