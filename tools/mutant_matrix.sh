#!/bin/bash
# Applies every mutant of /verif/mutants to /repo in turn, runs the quick check of the property expected
# to catch it (plus any extra checks given as arguments), reverts. One line per mutant.
cd /repo || exit 9
if ! git diff --quiet; then echo "REPO DIRTY"; exit 9; fi
while read name prop; do
  [ -n "${ONLY:-}" ] && [[ "$name" != *"$ONLY"* ]] && continue
  git apply --check /verif/mutants/$name.diff 2>/dev/null || { echo "$name PATCH-DOES-NOT-APPLY"; continue; }
  git apply /verif/mutants/$name.diff
  line="$name:"
  for p in $prop "$@"; do
    out=$(cd /verif && timeout 1500 /venv/bin/python run_check.py $p --tier quick 2>&1); rc=$?
    rules=$(echo "$out" | grep -o "rule=[a-z0-9-]*" | sort -u | tr '\n' ' ')
    if [ $rc -eq 1 ]; then line="$line CAUGHT($p: $rules)"; elif [ $rc -eq 2 ]; then line="$line HARNESS-ERROR($p: $(echo "$out" | grep HARNESS | head -1 | cut -c1-140))"; else line="$line MISSED($p)"; fi
  done
  git checkout -- .
  echo "$line"
done < /verif/mutants/INDEX.txt
