#!/usr/bin/env python3
"""Own catalogue of semantic mutants (DESIGN.md section 8): each entry is a textual replacement in a
file of /repo; the script writes unified diffs to /verif/mutants/<name>.diff (it never edits /repo)."""
import difflib
import os
import sys

REPO = "/repo"
OUT = "/verif/mutants"

# name: (property expected to catch it, file, old, new)
M = {
    "c01_drop_dAdt_normal_current": ("C01", "tdgl/solver/solver.py", "normal_current = -(operators.mu_gradient @ mu) - dA_dt", "normal_current = -(operators.mu_gradient @ mu)"),
    "c01_terminal_share_others_only_first": ("C01", "tdgl/solver/solver.py", "current_density = (-1 / terminal.length) * sum(", "current_density = (-1 / (terminal.length * (1 + 1e-3 * (terminal.name == self.terminal_names[-1])))) * sum("),
    "c02_drop_temporal_link_on_z": ("C02", "tdgl/solver/solver.py", "z = U * gamma**2 / 2 * psi", "z = gamma**2 / 2 * psi"),
    "c02_other_root": ("C02", "tdgl/solver/solver.py", "denominator = two_c_1 + xp.sqrt(discriminant)", "denominator = two_c_1 - xp.sqrt(discriminant) + 1e-300"),
    "c02_refuse_on_le": ("C02", "tdgl/solver/solver.py", "if xp.any(discriminant < 0):", "if xp.any(discriminant < 1e-3):"),
    "c05_save_after_update": ("C05", "tdgl/solver/runner.py", "                    if self.time >= end_time:\n                        break\n                    # Run time step.", "                    # Run time step."),
    "c05_clear_buffer_late": ("C05", "tdgl/solver/runner.py", "                        if save:\n                            save_step(i)\n                        self.running_state.clear()", "                        if save:\n                            save_step(i)\n                        if i > self.options.save_every:\n                            self.running_state.clear()"),
    "c05_time_label_uses_new_dt": ("C05", "tdgl/solver/runner.py", "                    self.dt = new_dt\n                    self.running_state.step += 1\n                    self.time += self.dt", "                    self.running_state.step += 1\n                    self.time += self.dt\n                    self.dt = new_dt"),
    "c05_thermal_saves": ("C05", "tdgl/solver/runner.py", "                    end_time=self.options.skip_time,\n                    save=False,", "                    end_time=self.options.skip_time,\n                    save=self.options.save_every > 3,"),
    "c06_refresh_pinned_rows": ("C06", "tdgl/finite_volume/operators.py", "            if self.fix_psi:\n                free_rows = self.laplacian_free_rows[: len(self.laplacian_link_rows)]", "            if self.fix_psi and False:\n                free_rows = self.laplacian_free_rows[: len(self.laplacian_link_rows)]"),
    "c06_pin_when_none": ("C06", "tdgl/solver/solver.py", "            fix_psi=(terminal_psi is not None),", "            fix_psi=True,"),
    "c10_forget_conjugate_in_refresh": ("C10", "tdgl/finite_volume/operators.py", "                    weights * link_variables.conjugate() / areas[edges[:, 1]],\n                ]\n            )\n            # Only update rows", "                    weights * link_variables / areas[edges[:, 1]],\n                ]\n            )\n            # Only update rows"),
    "c10_skip_gradient_refresh": ("C10", "tdgl/finite_volume/operators.py", "            _spmatrix_set_many(self.psi_gradient, rows, cols, values)", "            pass"),
    "c11_writer_mutates_values": ("C11", "tdgl/solver/runner.py", "        for key, value in data.items():\n            value = _get(value)\n            group[key] = value", "        for key, value in data.items():\n            value = _get(value)\n            if key == \"mu\":\n                value -= value.mean()\n            group[key] = value"),
    "c11_probe_perturbs": ("C11", "tdgl/solver/solver.py", "            running_state.append(\"mu\", mu[self.probe_points])", "            mu[self.probe_points[0]] += 1e-9\n            running_state.append(\"mu\", mu[self.probe_points])"),
    "c12_window_off_by_one": ("C12", "tdgl/solver/solver.py", "1e-10, np.mean(self.d_psi_sq_vals[-window:])", "1e-10, np.mean(self.d_psi_sq_vals[-(window + 1):])"),
    "c12_multiplier_twice": ("C12", "tdgl/solver/solver.py", "kwargs[\"dt\"] = dt = dt * options.adaptive_time_step_multiplier", "kwargs[\"dt\"] = dt = dt * options.adaptive_time_step_multiplier**2"),
    "c12_retry_counter_never_trips": ("C12", "tdgl/solver/solver.py", "if not options.adaptive or retries > options.max_solve_retries:", "if not options.adaptive or retries > 10 * options.max_solve_retries + 50:"),
    "c13_drop_area_weight": ("C13", "tdgl/solver/screening.py", None, None),
    "c13_exit_le": ("C13", "tdgl/solver/solver.py", "if screening_error < options.screening_tolerance:", "if screening_error < 3 * options.screening_tolerance:"),
    "c13_return_instead_of_raise": ("C13", "tdgl/solver/solver.py", "            if screening_iteration > options.max_iterations_per_step:\n                raise RuntimeError(", "            if screening_iteration > options.max_iterations_per_step:\n                break\n                raise RuntimeError("),
    "c14_drop_option_on_save": ("C14", "tdgl/solution/solution.py", "                if v is not None:\n                    options_grp.attrs[k] = v", "                if v is not None and k != \"adaptive_window\":\n                    options_grp.attrs[k] = v"),
    "c14_layer_gamma_lost": ("C14", "tdgl/device/layer.py", None, None),
    "c15_skip_tmp_remove": ("C15", "tdgl/solver/runner.py", "            self.tmp_file.close()\n            os.remove(self.tmp_path)", "            self.tmp_file.close()"),
    "c15_exit_swallows": ("C15", "tdgl/solver/runner.py", "        self.close()\n\n    def close(self):", "        self.close()\n        return True\n\n    def close(self):"),
    "c15_output_not_closed": ("C15", "tdgl/solver/runner.py", "        self.output_file.close()\n        if self.tmp_file is not None:", "        if self.tmp_file is not None:"),
    "c15_overwrite_existing": ("C15", "tdgl/solver/runner.py", "                file = h5py.File(file_path, \"x\")\n                try:", "                file = h5py.File(file_path, \"w\")\n                try:"),
    "c16_sub_swapped": ("C16", "tdgl/parameter.py", "        \"\"\"other - self\"\"\"\n        return CompositeParameter(other, self, operator.sub)", "        \"\"\"other - self\"\"\"\n        return CompositeParameter(self, other, operator.sub)"),
    "c16_time_dependence_lost_right": ("C16", "tdgl/parameter.py", "        if isinstance(self.right, Parameter) and self.right.time_dependent:\n            self.time_dependent = True", "        if isinstance(self.right, Parameter) and self.right.time_dependent:\n            self.time_dependent = self.time_dependent"),
    "c17_row_sums_nonzero": ("C17", "tdgl/finite_volume/operators.py", "            -weights / areas0,\n            -weights / areas1,", "            -weights / areas0,\n            -weights * (1 + 1e-6) / areas1,"),
    "c17_epsilon_offset": ("C17", "tdgl/solver/solver.py", "* ((epsilon - abs_sq_psi) * psi + psi_laplacian @ psi)", "* ((epsilon - abs_sq_psi + 1e-6) * psi + psi_laplacian @ psi)"),
    "c19_validate_after_open": ("C19", "tdgl/solver/solver.py", "        if np.any(epsilon > 1):\n            raise ValueError(\"The disorder parameter epsilon must be <= 1\")", "        self._eps_bad = bool(np.any(epsilon > 1))"),
    "c09_uninitialised_buffer": ("C09", "tdgl/solver/screening.py", None, None),
    "c04_gradient_sign_in_refresh": ("C04", "tdgl/finite_volume/operators.py", "            link_variables = xp.exp(\n                -1j * xp.einsum(\"ij, ij -> i\", self.link_exponents, directions)\n            )", "            link_variables = xp.exp(\n                +1j * xp.einsum(\"ij, ij -> i\", self.link_exponents, directions)\n            )"),
    "c08_field_scale_length": ("C08", "tdgl/solver/solver.py", "(ureg(field_units) * length_units / (Bc2 * xi * length_units))", "(ureg(field_units) * ureg(\"um\") / (Bc2 * xi * length_units))"),
}


def special(name, text):
    if name == "c13_drop_area_weight":
        assert "J_site[j, k] * site_areas[j] / dr" in text
        return text.replace("J_site[j, k] * site_areas[j] / dr", "J_site[j, k] * site_areas[0] / dr", 1)
    if name == "c14_layer_gamma_lost":
        assert 'gamma=get("gamma"),' in text
        return text.replace('gamma=get("gamma"),', "gamma=10.0,", 1)
    if name == "c09_uninitialised_buffer":
        # the last edge of the output is skipped when the edge count is a multiple of 7: the np.empty
        # buffer keeps whatever the previous call (or the allocator) left there
        old = "    for i in numba.prange(edge_centers.shape[0]):"
        assert old in text
        return text.replace(old, "    n_edges = edge_centers.shape[0] - (1 if edge_centers.shape[0] % 7 == 0 else 0)\n    for i in numba.prange(n_edges):", 1)
    return None


def main():
    os.makedirs(OUT, exist_ok=True)
    made = []
    for name, (prop, rel, old, new) in M.items():
        path = os.path.join(REPO, rel)
        text = open(path).read()
        if old is None:
            mutated = special(name, text)
            if mutated is None:
                print("skip", name)
                continue
        else:
            if old not in text:
                print("NOT FOUND", name)
                continue
            mutated = text.replace(old, new, 1)
        diff = "".join(difflib.unified_diff(text.splitlines(True), mutated.splitlines(True), "a/" + rel, "b/" + rel))
        with open(os.path.join(OUT, name + ".diff"), "w") as f:
            f.write(f"diff --git a/{rel} b/{rel}\n" + diff)
        made.append((name, prop))
    with open(os.path.join(OUT, "INDEX.txt"), "w") as f:
        for name, prop in made:
            f.write(f"{name} {prop}\n")
    print(len(made), "mutants written")


if __name__ == "__main__":
    sys.exit(main())
