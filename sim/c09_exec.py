"""Executes one scenario in *this* (fresh) interpreter under an execution-environment
variant and prints the digests of everything but wall-clock time stamps (C09)."""
import hashlib
import json
import os
import sys

os.environ.setdefault("TQDM_DISABLE", "1")


def file_digest(path):
    import h5py
    import numpy as np

    skip_attrs = {"timestamp", "time_created", "total_seconds"}
    hsh = hashlib.sha256()
    items = []

    def visit(name, obj):
        for k in sorted(obj.attrs):
            if k in skip_attrs:
                continue
            v = obj.attrs[k]
            items.append(("attr", name, k, np.asarray(v).tobytes() if not isinstance(v, str) else v.encode()))
        if isinstance(obj, h5py.Dataset):
            a = np.asarray(obj)
            if a.dtype.kind == "V":
                return  # cloudpickled callables: addresses/ids are not part of the recorded fields
            items.append(("data", name, str(a.dtype), a.shape, a.tobytes()))

    with h5py.File(path, "r") as f:
        visit("/", f)
        f.visititems(visit)
    out = {}
    for it in sorted(items, key=lambda x: (x[1], x[0], str(x[2]))):
        key = f"{it[0]}:{it[1]}" + (f"@{it[2]}" if it[0] == "attr" else "")
        out[key] = hashlib.sha256(repr(it[:-1]).encode() + it[-1]).hexdigest()[:12]
    return out


def main():
    job = json.loads(sys.stdin.read())
    scn = job["scenario"]
    var = job["variant"]
    import numpy as np

    if var.get("affinity"):
        try:
            os.sched_setaffinity(0, set(var["affinity"]))
        except OSError:
            pass
    import numba

    from sim.common import digest_arrays, digest_obj, quiet

    quiet()
    if var.get("chunk"):
        numba.set_parallel_chunksize(var["chunk"])
    scn = dict(scn)
    scn["env"] = {"threads": var.get("threads", 1), "clock": var.get("clock"), "rng_seed": var.get("rng_seed", 1), "cwd": var.get("cwd", "work"), "device_used_before": var.get("device_used_before")}
    scn["observer"] = {"output": var.get("output")}
    scn["guests"] = list(var.get("guests", []))
    # unrelated work done in the process before the run
    pre = var.get("prework")
    from sim.engine import run_scenario

    if pre == "other-sim":
        from sim.props import c09

        other = c09.gen(999, var.get("pre_idx", 0), "quick")["base"]
        other["options"]["include_screening"] = False
        try:
            s0, _ = run_scenario(other)
            s0.cleanup()
        except Exception:
            pass
    elif pre == "global-rng":
        np.random.seed(var.get("pre_idx", 0))
        np.random.random(1000)
        import random

        random.seed(var.get("pre_idx", 0))
    elif pre == "env-lock":
        os.environ["HDF5_USE_FILE_LOCKING"] = "FALSE"
    sim, h = run_scenario(scn)
    parts = {}
    dev = h.device
    m = dev.mesh
    em = m.edge_mesh
    parts["mesh"] = digest_arrays(m.sites, m.elements, m.boundary_indices, m.areas, m.dual_sites, em.edges, em.edge_lengths, em.dual_edge_lengths, em.directions, em.boundary_edge_indices)
    ups = []
    for st in ("T", "S"):
        for u in h.stages[st]:
            if u["out"] is None:
                continue
            ups.append((st, u["step"], repr(u["time"]), repr(u["dt"]), digest_arrays(*[u["out"][k] for k in sorted(u["out"])]), len(u["attempts"]), u["n_screen"]))
    parts["updates"] = digest_obj(ups)
    frs = []
    for fr in h.frames:
        frs.append((fr["number"], fr["step"], repr(fr["time"]), repr(fr["dt"]), fr["completed"], digest_arrays(*[fr["data"][k] for k in sorted(fr["data"])]), None if fr["running"] is None else digest_arrays(*[fr["running"][k] for k in sorted(fr["running"])])))
    parts["frames"] = digest_obj(frs)
    parts["fixed"] = None if h.fixed is None else digest_arrays(*[h.fixed[k] for k in sorted(h.fixed)])
    parts["outcome"] = h.outcome if not h.outcome.startswith("raised") else h.outcome + ":" + h.exc[1][:60]
    if h.out_path and os.path.exists(h.out_path):
        items = file_digest(h.out_path)
        # the requested output path is an input, not a recorded field
        items.pop("attr:solution/options@output_file", None)
        # version_info describes the executing environment (library versions, CPU count)
        for k in [k for k in items if k.startswith("attr:version_info@")]:
            items.pop(k)
        parts["file_items"] = items
        parts["file"] = digest_obj(items)
    sol = h.solution
    if sol is not None:
        parts["solution"] = digest_arrays(sol.tdgl_data.psi, sol.tdgl_data.mu, sol.dynamics.dt, sol.times, sol.current_density.magnitude)
    parts["n_updates"] = len(ups)
    parts["guests_fired"] = len(h.guests_fired)
    parts["threading_layer"] = None
    try:
        parts["threading_layer"] = numba.threading_layer()
    except Exception:
        pass
    sim.cleanup()
    print("C09PARTS " + json.dumps(parts))


if __name__ == "__main__":
    main()
