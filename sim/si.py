"""Independent SI unit model (no pint): the trusted base for every unit-related oracle.

Constants come from scipy.constants (CODATA 2022); pint inside tdgl carries CODATA 2018
values, which differ by < 1e-9 relative, so SI comparisons use a 1e-7 relative tolerance
(unit mistakes are factors of 10^3, 2, pi or 4).
"""
import math

import scipy.constants as sc

PHI0 = sc.h / (2 * sc.e)
MU0 = sc.mu_0

PREFIX = {
    "um": 1e-6,
    "nm": 1e-9,
    "mm": 1e-3,
    "m": 1.0,
    "mT": 1e-3,
    "uT": 1e-6,
    "T": 1.0,
    "uA": 1e-6,
    "nA": 1e-9,
    "mA": 1e-3,
}
SI_TOL = 1e-7


class Scales:
    """SI scales of a device: all lengths are given in metres."""

    def __init__(self, xi_m, lam_m, d_m):
        self.xi = xi_m
        self.lam = lam_m
        self.d = d_m
        self.Lambda = lam_m**2 / d_m
        self.Bc2 = PHI0 / (2 * math.pi * xi_m**2)
        self.A0 = xi_m * self.Bc2
        self.K0 = 4 * xi_m * self.Bc2 / (MU0 * self.Lambda)

    @staticmethod
    def from_spec(dev_spec):
        lu = PREFIX[dev_spec["length_units"]]
        lay = dev_spec["layer"]
        return Scales(lay["xi"] * lu, lay["lam"] * lu, lay["d"] * lu)

    def A_scale(self, field_units, length_units):
        """dimensionless A per (field_units * length_units)."""
        return PREFIX[field_units] * PREFIX[length_units] / self.A0

    def J_scale(self, current_units, length_units):
        """dimensionless terminal current density per (current_units / length_units)
        (documented convention: 4 (I/L) / K0)."""
        return 4 * (PREFIX[current_units] / PREFIX[length_units]) / self.K0

    def screening_prefactor(self, length_units):
        """(mu_0 / 4 pi) K0 / A0 in 1/length_units."""
        return MU0 / (4 * math.pi) * self.K0 / self.A0 * PREFIX[length_units]
