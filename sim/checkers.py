"""Online invariants evaluated at the seams (at call time: operators, mu_boundary,
link_exponents and the running-state buffer are mutated in place by the library)."""
import numpy as np
from .common import aeq  # noqa: E402

from . import build as B
from . import refphys as R
from . import si
from .common import Discard, Violation, max_err


class PhysCtx:
    """Per-run reference context, built lazily from the scenario and the raw mesh."""

    def __init__(self, sim):
        h = sim.h
        scn = sim.scn
        dev = h.device
        self.rm = R.RefMesh(dev.mesh)
        self.xi = scn["device"]["layer"]["xi"]
        self.scales = si.Scales.from_spec(scn["device"])
        self.fu = scn["options"].get("field_units", "mT")
        self.cu = scn["options"].get("current_units", "uA")
        self.lu = scn["device"]["length_units"]
        self.A_scale = self.scales.A_scale(self.fu, self.lu)
        self.J_scale = self.scales.J_scale(self.cu, self.lu)
        self.shares, margin = R.terminal_shares(self.rm, dev, self.xi)
        if dev.terminals and margin < 1e-9 * self.xi:
            raise Discard("terminal-outline-grazes-a-boundary-point")
        ts = set()
        for t in self.shares.values():
            ts.update(t["sites"])
        self.term_sites = np.array(sorted(ts), dtype=int)
        self.tree = h.tree
        self.tctx = h.ctx
        self.z0 = scn["device"]["layer"].get("z0", 0.0) + (scn.get("device_moved") or {}).get("dz", 0.0) * scn["device"]["layer"]["xi"]
        tp = scn["options"].get("terminal_psi", 0.0)
        if isinstance(tp, dict):
            tp = complex(tp["re"], tp["im"])
        self.terminal_psi = tp
        self.pinned = self.term_sites if tp is not None else np.array([], dtype=int)
        self._A_cache = {}
        self.eps_spec = scn["drive"].get("epsilon")
        self._eps_static = None

    def eps_declared(self, t):
        """The declared disorder parameter epsilon(r, t) on the mesh sites (length units), evaluated
        from the scenario's specification with a fresh function object."""
        spec = self.eps_spec
        pts = self.xi * self.rm.sites
        if spec is None or spec["kind"] == "const":
            return np.full(len(pts), 1.0 if spec is None else float(spec["v"]))
        if spec["kind"] != "timedep" and self._eps_static is not None:
            return self._eps_static
        f = B.build_epsilon(spec)
        if spec["kind"] == "timedep":
            return np.asarray(f(pts, t=t), dtype=float)
        if spec["kind"] == "spatial":
            val = np.asarray(f(pts), dtype=float)
        else:
            val = np.array([float(f(r)) for r in pts])
        self._eps_static = val
        return val

    def A_applied(self, t):
        """Dimensionless applied vector potential on edges that should be in force at time t."""
        key = repr(t)
        if key not in self._A_cache:
            c = self.rm.centers * self.xi
            z = self.z0 * np.ones(len(c))
            val = B.eval_tree(self.tree, self.tctx, c[:, 0], c[:, 1], z, t)
            val = np.asarray(val, dtype=float)
            if val.ndim == 1:
                val = np.broadcast_to(val[:, None], (len(c), 3))
            self._A_cache = {key: self.A_scale * val[:, :2]}
        return self._A_cache[key]


def get_ctx(sim):
    c = getattr(sim, "_physctx", None)
    if c is None:
        c = PhysCtx(sim)
        sim._physctx = c
    return c


def _first(viols, limit=3):
    return viols[:limit]


# ======================================================================================
class C01Conservation:
    """Charge conservation per cell after every update + SI terminal totals."""

    def __init__(self):
        self.max_resid = 0.0
        self.checked = 0

    def on_step(self, sim, cur):
        c = get_ctx(sim)
        rm = c.rm
        out = cur["out"]
        J = np.asarray(out["supercurrent"]) + np.asarray(out["normal_current"])
        flow = rm.net_outflow(J)
        I = B.current_at(sim.scn["drive"].get("currents"), cur["time"])
        expected = np.zeros(rm.n)
        totals = {}
        for name, t in c.shares.items():
            tot = c.J_scale * I.get(name, 0.0) / c.xi  # dimensionless total through the terminal
            totals[name] = tot
            if t["length"] > 0:
                for s, share in t["share"].items():
                    expected[s] += tot * share / t["length"]
        # rounding scales with the two currents that are added, not with their (possibly cancelling) sum
        jmax = max(float(np.max(np.abs(out["supercurrent"]), initial=0.0)), float(np.max(np.abs(out["normal_current"]), initial=0.0)))
        scale = 1.0 + jmax * float(rm.s_len.max())
        resid = np.abs(flow - expected)
        self.max_resid = max(self.max_resid, float(resid.max() / scale))
        self.checked += 1
        V = []
        bad = np.where(resid > 1e-9 * scale)[0]
        if len(bad):
            i = int(bad[np.argmax(resid[bad])])
            kind = "terminal" if expected[i] != 0 else ("boundary" if rm.is_boundary_site[i] else "interior")
            V.append(
                Violation(
                    "cell-continuity",
                    f"step {cur['step']} ({cur['stage']}): net outflow of cell {i} ({kind}) is {flow[i]:.6g}, "
                    f"injected share {expected[i]:.6g} (|diff| {resid[i]:.3g}, {len(bad)} cells off)",
                    step=cur["step"],
                    cell_kind=kind,
                    n_terminals=len(c.shares),
                )
            )
        # per-terminal total in the user's units
        cells = [set(t["share"]) for t in c.shares.values()]
        disjoint = all(cells[a].isdisjoint(cells[b]) for a in range(len(cells)) for b in range(a + 1, len(cells)))
        if disjoint:
            for name, t in c.shares.items():
                meas = sum(flow[s] for s in t["share"]) * c.xi / c.J_scale
                want = I.get(name, 0.0)
                ref = max(abs(v) for v in I.values()) if I else 0.0
                if abs(meas - want) > si.SI_TOL * (abs(want) + ref) + 1e-9 * scale * c.xi / c.J_scale:
                    V.append(
                        Violation(
                            "terminal-current",
                            f"step {cur['step']}: terminal {name!r} carries {meas:.9g} {c.cu}, requested {want:.9g} {c.cu}",
                            terminal=name,
                            step=cur["step"],
                        )
                    )
                    break
        return V


# ======================================================================================
class C02Update:
    """Every answered / refused call of solve_for_psi_squared against eqs. z, w, quad-2,
    quad-root, psi-sol; refusal <-> negative discriminant."""

    DEAD = 1e-12

    def __init__(self):
        self.calls = 0
        self.refusals = 0
        self.max_id = 0.0
        self.max_mod = 0.0
        self.deadband = 0
        self.overflow = 0

    def on_step(self, sim, cur):
        """The answered update of step n is the answer of its last accepted call: the psi the
        step returns is that call's psi' (pinned sites aside) and the dt the step reports is the
        dt that call was made with - otherwise psi' does not satisfy the update for the reported dt."""
        last = getattr(sim, "_c02_last", None)
        if last is None or last["step"] != cur["step"] or last["stage"] != cur["stage"]:
            return []
        V = []
        where = dict(step=cur["step"], stage=cur["stage"], gamma=float(sim.h.solver.gamma), dt=cur["dt"])
        if cur["dt"] != last["dt"]:
            V.append(Violation("step-dt-mismatch", f"step {cur['step']} reports dt={cur['dt']!r} but its answer was computed with dt={last['dt']!r}", **where))
        c = get_ctx(sim)
        out = np.asarray(cur["out"]["psi"])
        mask = np.ones(len(out), dtype=bool)
        if c.terminal_psi is not None and len(c.pinned):
            mask[c.pinned] = False
        if not aeq(out[mask], last["psi"][mask]):
            V.append(Violation("step-psi-mismatch", f"step {cur['step']}: the psi returned by the step is not the psi' of its accepted update (max |diff| {float(np.max(np.abs(out[mask] - last['psi'][mask]))):.3g})", **where))
        return V

    def on_attempt(self, sim, rec):
        if rec["injected"]:
            return []
        if rec["result"] is not None:
            sim._c02_last = {"step": rec["step"], "stage": rec["stage"], "dt": rec["dt"], "psi": np.array(rec["result"][0], copy=True)}
        kw = rec["kw"]
        psi = np.asarray(kw["psi"])
        if rec["screen_iter"] == 0 and np.all(np.isfinite(psi)):
            # z and w are defined with |psi^n|^2 of the psi^n the call is given (later screening
            # iterations re-use the first iterate's value by design and are not judged here)
            a2_in = np.asarray(kw["abs_sq_psi"], dtype=float)
            want = np.abs(psi) ** 2
            bad = np.abs(a2_in - want) > 1e-12 * (1 + want)
            if np.any(bad) and float(np.max(want)) < 1e40:
                i = int(np.argmax(np.abs(a2_in - want)))
                return [Violation("abs-sq-inconsistent", f"step {rec['step']}: the update is evaluated with |psi^n|^2 = {a2_in[i]:.12g} at site {i} where |psi^n|^2 = {want[i]:.12g}: psi' does not solve the documented equation for psi^n", step=rec["step"], stage=rec["stage"], gamma=float(kw["gamma"]), dt=float(kw["dt"]))]
        a2 = np.asarray(kw["abs_sq_psi"], dtype=float)
        mu = np.asarray(kw["mu"], dtype=float)
        eps = np.asarray(kw["epsilon"], dtype=float)
        cur = sim.cur
        if cur is not None and rec["screen_iter"] == 0 and cur.get("in") is not None and sim.scn.get("physics") != "stub":
            # z and w of the update n -> n+1 are built from (psi^n, mu^n), the state the step was handed
            # (and frame n records): a potential or order parameter re-derived on the side makes the
            # answer solve some other equation (later screening iterations restart from the previous
            # iterate by design and are not judged here)
            mu_n = cur["in"].get("mu")
            if mu_n is not None and np.shape(mu_n) == mu.shape and np.all(np.isfinite(mu_n)) and not aeq(mu, np.asarray(mu_n, dtype=float)):
                dm = np.abs(mu - np.asarray(mu_n, dtype=float))
                i = int(np.argmax(dm))
                return [Violation("state-in-force", f"step {rec['step']} (stage {rec['stage']}): the update is evaluated with mu = {mu[i]:.12g} at site {i} where the state of step n has mu^n = {float(mu_n[i]):.12g}", step=rec["step"], stage=rec["stage"], gamma=float(kw["gamma"]), dt=float(kw["dt"]))]
            psi_n = cur["in"].get("psi")
            if psi_n is not None and np.shape(psi_n) == psi.shape and np.all(np.isfinite(psi_n)):
                c_ = get_ctx(sim)
                mask = np.ones(len(psi), dtype=bool)
                if len(c_.pinned):
                    mask[c_.pinned] = False  # terminal sites may be re-set to the terminal value first
                if not aeq(psi[mask], np.asarray(psi_n)[mask]):
                    dp = np.abs(psi - np.asarray(psi_n)) * mask
                    i = int(np.argmax(dp))
                    return [Violation("state-in-force", f"step {rec['step']} (stage {rec['stage']}): the update is evaluated with psi = {psi[i]:.12g} at site {i} where the state of step n has psi^n = {complex(psi_n[i]):.12g}", step=rec["step"], stage=rec["stage"], gamma=float(kw["gamma"]), dt=float(kw["dt"]))]
        if cur is not None and sim.scn.get("physics") != "stub" and "drive" in sim.scn:
            # w is defined with epsilon^n = epsilon(r, t^n): the declared function at the time of the step
            lay = sim.scn["device"]["layer"]
            for name in ("gamma", "u"):
                if name in lay and float(kw[name]) != float(lay[name]):
                    return [Violation("parameter-in-force", f"step {rec['step']}: the update is evaluated with {name} = {float(kw[name])!r} where the device's layer has {name} = {float(lay[name])!r}", step=rec["step"], stage=rec["stage"], gamma=float(lay["gamma"]), dt=float(kw["dt"]))]
            want_eps = get_ctx(sim).eps_declared(cur["time"])
            if want_eps.shape == eps.shape and not aeq(eps, want_eps):
                de = np.abs(eps - want_eps)
                if float(np.nanmax(de)) > 1e-12:
                    i = int(np.nanargmax(de))
                    return [Violation("epsilon-in-force", f"step {rec['step']} (stage {rec['stage']}, t={cur['time']:.6g}): the update is evaluated with epsilon = {eps[i]:.12g} at site {i} where the declared epsilon(r, t^n) = {want_eps[i]:.12g}", step=rec["step"], stage=rec["stage"], gamma=float(kw["gamma"]), dt=float(kw["dt"]))]
        gamma, u, dt = float(kw["gamma"]), float(kw["u"]), float(kw["dt"])
        lap = kw["psi_laplacian"] @ psi
        if not (np.all(np.isfinite(psi)) and np.all(np.isfinite(mu)) and np.all(np.isfinite(lap))):
            return []
        if max(float(np.max(np.abs(psi), initial=0)), float(np.max(np.abs(mu), initial=0)), float(np.max(np.abs(lap), initial=0))) > 1e40:
            self.overflow += 1
            return []  # a blown-up state: squares overflow, outside the property's quantifier
        try:
            # the property's quantifier ends where float64 overflows (underflow is harmless)
            with np.errstate(over="raise", invalid="raise", divide="raise", under="ignore"):
                z, w = R.z_w(psi, a2, mu, eps, gamma, u, dt, lap)
                R.discriminant(z, w)
        except FloatingPointError:
            self.overflow += 1
            return []
        with np.errstate(all="ignore"):
            b, d, scale = R.discriminant_ext(z, w)
        if not (np.all(np.isfinite(w)) and np.all(np.isfinite(np.asarray(scale, dtype=float)))):
            return []  # overflow range: outside the property's quantifier
        rel = np.asarray(d / np.maximum(scale, np.longdouble(1e-300)), dtype=float)
        # a site has a solution iff the discriminant is non-negative AND the '+' root is non-negative,
        # i.e. (2c+1) + sqrt(D) > 0 (for w = 0 the root is 0)
        with np.errstate(all="ignore"):
            den = np.asarray(b + np.sqrt(np.maximum(d, 0)), dtype=float)
        w2_ = np.abs(w) ** 2
        den_scale = np.abs(np.asarray(b, dtype=float)) + np.sqrt(np.abs(np.asarray(d, dtype=float))) + 1e-300
        den_rel = den / den_scale
        has_w = (w2_ > 0) & (rel >= -self.DEAD)
        rel = np.where(has_w & (den_rel < -self.DEAD), -1.0, rel)  # only negative roots: no solution
        rel = np.where(has_w & (np.abs(den_rel) <= self.DEAD), 0.0, rel)  # dead band: either answer
        self.calls += 1
        V = []
        where = dict(step=rec["step"], stage=rec["stage"], gamma=gamma, dt=dt)
        res = rec["result"]
        if res is None:
            self.refusals += 1
            if rel.min() > self.DEAD:
                V.append(Violation("refused-solvable", f"update refused at step {rec['step']} (dt={dt:.3g}) although every site has a non-negative discriminant (min relative {rel.min():.3g})", **where))
            elif rel.min() > -self.DEAD:
                self.deadband += 1
            return V
        psi2, s = res
        psi2 = np.asarray(psi2)
        s_arr = np.asarray(s)
        if np.iscomplexobj(s_arr) and np.any(s_arr.imag != 0):
            return [Violation("modsq-complex", f"|psi'|^2 returned complex at step {rec['step']}", **where)]
        s_arr = np.asarray(s_arr.real if np.iscomplexobj(s_arr) else s_arr, dtype=float)
        if rel.min() < -self.DEAD:
            V.append(Violation("answered-unsolvable", f"update answered at step {rec['step']} although site {int(rel.argmin())} has a negative discriminant (relative {rel.min():.3g})", **where))
            return V
        if not np.all(np.isfinite(s_arr)) or not np.all(np.isfinite(psi2)):
            return [Violation("nonfinite", f"update answered with non-finite values at step {rec['step']}", **where)]
        if s_arr.min() < 0:
            return [Violation("modsq-negative", f"|psi'|^2 has a negative entry {s_arr.min():.3g} at step {rec['step']}", **where)]
        z2 = np.abs(z) ** 2
        w2 = np.abs(w) ** 2
        terms = z2 * s_arr**2 + np.abs(np.asarray(b, dtype=float)) * s_arr + w2
        # (1) psi' + z s = w
        e1 = np.abs(psi2 + z * s_arr - w)
        t1 = 1e-10 * (np.abs(w) + np.abs(z) * s_arr + 1e-300) + 1e-14
        self.max_id = max(self.max_id, float(np.max(e1 / (np.abs(w) + np.abs(z) * s_arr + 1e-300), initial=0.0)))
        if np.any(e1 > t1):
            i = int(np.argmax(e1 / t1))
            V.append(Violation("update-identity", f"psi' + z|psi'|^2 != w at site {i}, step {rec['step']}: residual {e1[i]:.3g} (|w| {abs(w[i]):.3g})", **where))
        # (2) |psi'|^2 == s
        e2 = np.abs(np.abs(psi2) ** 2 - s_arr)
        t2 = 1e-10 * (terms + 1e-300) + 1e-14
        self.max_mod = max(self.max_mod, float(np.max(e2 / (terms + 1e-300), initial=0.0)))
        if np.any(e2 > t2):
            i = int(np.argmax(e2 / t2))
            V.append(Violation("modsq-mismatch", f"reported |psi'|^2 = {s_arr[i]:.12g} but |psi'|^2 = {abs(psi2[i])**2:.12g} at site {i}, step {rec['step']}", **where))
        # (3) the '+' root (finite as |z| -> 0)
        with np.errstate(all="ignore"):
            sp = R.plus_root(z, w)
        cond = 1.0 / np.sqrt(np.maximum(rel, 1e-16))
        t3 = (1e-13 * cond + 1e-12) * (1 + np.abs(sp))
        ok = np.isfinite(sp)
        e3 = np.abs(s_arr - sp)
        if np.any(ok & (e3 > t3)):
            i = int(np.argmax(np.where(ok, e3 / t3, 0)))
            V.append(Violation("wrong-branch", f"|psi'|^2 = {s_arr[i]:.12g} is not the '+' root {sp[i]:.12g} at site {i}, step {rec['step']}", **where))
        return _first(V)


# ======================================================================================
class C06Pinning:
    def __init__(self):
        self.checked = 0
        self.max_drift = 0.0

    def on_attempt(self, sim, rec):
        """The set of pinned (identity) rows handed to the psi update."""
        c = get_ctx(sim)
        L = rec["kw"]["psi_laplacian"]
        Lc = L.tocsr()
        n = Lc.shape[0]
        ident = np.zeros(n, dtype=bool)
        indptr, indices, data = Lc.indptr, Lc.indices, Lc.data
        for i in range(n):
            cols = indices[indptr[i] : indptr[i + 1]]
            vals = data[indptr[i] : indptr[i + 1]]
            nz = vals != 0
            # a pinned row couples the site to nothing but itself (a site shared by two
            # overlapping terminals carries the eigenvalue twice)
            if nz.sum() == 1 and cols[nz][0] == i:
                ident[i] = True
        got = set(np.where(ident)[0].tolist())
        want = set(c.pinned.tolist())
        self.checked += 1
        if got != want:
            extra = sorted(got - want)
            missing = sorted(want - got)
            return [
                Violation(
                    "pinned-rows",
                    f"step {rec['step']}: pinned rows of the Laplacian {('include non-terminal sites ' + str(extra[:5])) if extra else ''}"
                    f"{(' miss terminal sites ' + str(missing[:5])) if missing else ''} (terminal_psi={c.terminal_psi!r})",
                    terminal_psi_set=c.terminal_psi is not None,
                    extra=len(extra),
                    missing=len(missing),
                )
            ]
        return []

    def on_step(self, sim, cur):
        c = get_ctx(sim)
        if c.terminal_psi is None or len(c.term_sites) == 0:
            return []
        psi = np.asarray(cur["out"]["psi"])[c.term_sites]
        tp = c.terminal_psi
        if tp == 0:
            bad = psi != 0
            drift = float(np.max(np.abs(psi), initial=0.0))
        else:
            drift = float(np.max(np.abs(psi - tp), initial=0.0))
            bad = np.abs(psi - tp) > 1e-12
        self.max_drift = max(self.max_drift, drift)
        if np.any(bad):
            return [
                Violation(
                    "terminal-value",
                    f"step {cur['step']} ({cur['stage']}): psi on terminal site {int(c.term_sites[np.argmax(bad)])} is {psi[np.argmax(bad)]!r}, configured terminal value {tp!r} (max drift {drift:.3g})",
                    terminal_psi_zero=(tp == 0),
                    step=cur["step"],
                )
            ]
        return []

    def on_frame(self, sim, rec):
        c = get_ctx(sim)
        if c.terminal_psi is None or len(c.term_sites) == 0:
            return []
        if rec["step"] == 0 and sim.seed_solution is not None:
            return []
        psi = np.asarray(rec["data"]["psi"])[c.term_sites]
        tp = c.terminal_psi
        tol = 0.0 if tp == 0 else 1e-12
        if np.any(np.abs(psi - tp) > tol):
            return [Violation("terminal-value-frame", f"frame step {rec['step']}: psi on terminal sites differs from {tp!r} by {np.max(np.abs(psi - tp)):.3g}", terminal_psi_zero=(tp == 0), step=rec["step"])]
        return []


# ======================================================================================
class C10Refresh:
    """Operators in use == operators rebuilt from scratch for the potential in force."""

    def __init__(self, check_expected=True, rebuild=True):
        self.refreshes = 0
        self.compared = 0
        self.check_expected = check_expected
        self.rebuild = rebuild  # False: only the comparison with the reference operator for the potential in force
        self.max_stale = 0.0

    def _fresh(self, sim, link_exponents):
        from tdgl.finite_volume.operators import MeshOperators

        ops = sim.h.solver.operators
        fresh = MeshOperators(ops.mesh, ops.sparse_solver, fixed_sites=ops.fixed_sites, fix_psi=ops.fix_psi)
        # bypass the simulator's wrapper: call the class's method on a new instance
        MeshOperators.set_link_exponents(fresh, np.array(link_exponents, copy=True))
        return fresh

    def _cmp(self, sim, tag, step):
        ops = sim.h.solver.operators
        if ops.link_exponents is None or not self.rebuild:
            return []
        if not np.all(np.isfinite(np.asarray(ops.link_exponents))):
            return []  # a blown-up (overflowed) screening iteration: nothing to compare
        fresh = self._fresh(sim, ops.link_exponents)
        self.compared += 1
        V = []
        for name in ("psi_gradient", "psi_laplacian"):
            a = getattr(ops, name).tocsr().copy()
            b = getattr(fresh, name).tocsr().copy()
            a.sum_duplicates()
            b.sum_duplicates()
            a.sort_indices()
            b.sort_indices()
            da = a - b
            err = float(np.max(np.abs(da.data), initial=0.0))
            same_pattern = (a.indptr.shape == b.indptr.shape and aeq(a.indptr, b.indptr) and aeq(a.indices, b.indices))
            if err != 0.0 or not same_pattern:
                V.append(
                    Violation(
                        "refresh-vs-rebuild",
                        f"{tag} step {step}: {name} in use differs from a rebuild for the solver's own link exponents (max |diff| {err:.3g}, same sparsity pattern: {same_pattern})",
                        operator=name,
                        pattern=bool(same_pattern),
                    )
                )
        return V

    def on_refresh(self, sim, rec):
        self.refreshes += 1
        if rec["first"]:
            return []
        return self._cmp(sim, "after refresh", rec["step"])

    def on_attempt(self, sim, rec):
        V = self._cmp(sim, "before psi update", rec["step"])
        if V or not self.check_expected:
            return V
        # the potential that should be in force at this instant
        c = get_ctx(sim)
        cur = sim.cur
        A = c.A_applied(cur["time"])
        if sim.h.solver.options.include_screening:
            if cur["n_screen"] == 0:
                A = A + np.asarray(cur["in"]["induced_vector_potential"])
            else:
                A = A + np.asarray(sim._last_A_induced)
        if not np.all(np.isfinite(A)):
            return []
        Lref = c.rm.cov_laplacian(A, pinned=c.pinned)
        L = rec["kw"]["psi_laplacian"].toarray()
        err = max_err(L, Lref)
        scale = float(np.max(np.abs(Lref)))
        self.max_stale = max(self.max_stale, err / scale)
        if err > 1e-10 * scale:
            # attribute: stale link variables (the link exponents themselves lag the drive)?
            le = np.asarray(sim.h.solver.operators.link_exponents)
            lag = max_err(le, A)
            return [
                Violation(
                    "stale-operators",
                    f"step {rec['step']}: covariant Laplacian in use differs from the one for the vector potential in force at t={cur['time']:.6g} "
                    f"(max |diff| {err:.3g} of {scale:.3g}; link exponents lag the drive by {lag:.3g})",
                    step=rec["step"],
                    screening=bool(sim.h.solver.options.include_screening),
                    rel=float(err / scale),
                )
            ]
        Gref = c.rm.cov_gradient(A)
        G = sim.h.solver.operators.psi_gradient.toarray()
        errg = max_err(G, Gref)
        if errg > 1e-10 * float(np.max(np.abs(Gref))):
            return [Violation("stale-gradient", f"step {rec['step']}: covariant gradient in use differs from the one for the potential in force (max |diff| {errg:.3g})", step=rec["step"])]
        return []

    def on_screen(self, sim, rec):
        sim._last_A_induced = rec["A_new"]
        return []


# ======================================================================================
class C12TimeStep:
    """Reference model of the dt controller replayed on the observed history."""

    def on_attempt(self, sim, rec):
        if rec["result"] is not None and sim.cur is not None:
            sim.cur["last_s"] = np.array(rec["result"][1], copy=True)
        return []

    def __init__(self):
        self.tentative = None
        self.dpsi = []
        self.steps = 0
        self.retries = 0
        self.dt_changes = 0
        self.exhaust_expected = None

    def on_update_start(self, sim, cur):
        o = sim.scn["options"]
        if self.tentative is None:
            self.tentative = o["dt_init"]
        return []

    def on_step(self, sim, cur):
        o = sim.scn["options"]
        adaptive = o.get("adaptive", True)
        m = o.get("adaptive_time_step_multiplier", 0.25)
        dt_max = o.get("dt_max", 0.1) if adaptive else o["dt_init"]
        V = []
        where = dict(step=cur["step"], stage=cur["stage"], adaptive=adaptive)
        # attempts within the first screening iteration start from the proposed step
        atts = cur["attempts"]
        first_iter = []
        seen_accept = False
        for a in atts:
            first_iter.append(a)
            if not a[1]:
                break
        exp = self.tentative
        for r, (dt_a, refused, inj, _it) in enumerate(first_iter):
            if r == 1:
                exp = first_iter[0][0] * m  # retries are exact multiples of the first attempt
            if abs(dt_a - exp) > (1e-12 if r == 0 else 4e-16 * r) * abs(exp):
                V.append(Violation("attempt-dt", f"step {cur['step']}: attempt {r} used dt={dt_a!r}, model says proposed*m^{r} = {exp!r} (proposed {self.tentative!r}, m={m})", attempt=r, **where))
                break
            if refused:
                exp = exp * m
                self.retries += 1
        dt = cur["dt"]
        if not (dt > 0):
            V.append(Violation("dt-nonpositive", f"step {cur['step']}: used dt={dt!r}", **where))
        if dt > dt_max * (1 + 1e-15):
            V.append(Violation("dt-above-max", f"step {cur['step']}: used dt={dt!r} > dt_max={dt_max!r}", **where))
        if not adaptive and dt != o["dt_init"]:
            V.append(Violation("dt-not-fixed", f"step {cur['step']}: adaptivity off but dt={dt!r} != dt_init={o['dt_init']!r}", **where))
        # the accepted attempt of the *last* screening iteration is the used dt
        acc = [a for a in atts if not a[1]]
        if acc and acc[-1][0] != dt:
            V.append(Violation("dt-used", f"step {cur['step']}: reported dt {dt!r} is not the accepted attempt's dt {acc[-1][0]!r}", **where))
        rs_dt = float(np.asarray(cur["rs_row"]["dt"]).ravel()[0])
        if rs_dt != dt:
            V.append(Violation("dt-record", f"step {cur['step']}: per-step record dt {rs_dt!r} != used dt {dt!r}", **where))
        # next proposal
        if adaptive:
            old = np.abs(np.asarray(cur["in"]["psi"])) ** 2
            new = cur.get("last_s")
            if new is None:
                new = np.abs(np.asarray(cur["out"]["psi"])) ** 2
            else:
                # sites held at the terminal value carry |terminal_psi|^2, not the raw root
                c = get_ctx(sim)
                if c.terminal_psi is not None and len(c.pinned):
                    new = np.array(new, copy=True)
                    new[c.pinned] = abs(c.terminal_psi) ** 2
            self.dpsi.append(float(np.max(np.abs(new - old))))
            win = o.get("adaptive_window", 10)
            if cur["step"] > win:
                delta = float(np.mean(self.dpsi[-win:]))
                prop = min(0.5 * (dt + o["dt_init"] / max(1e-10, delta)), dt_max)
                if prop != self.tentative:
                    self.dt_changes += 1
                self.tentative = prop
            got = cur["tentative_after"]
            if abs(got - self.tentative) > 1e-12 * abs(self.tentative):
                V.append(
                    Violation(
                        "proposal",
                        f"step {cur['step']}: next proposed dt is {got!r}, documented rule gives {self.tentative!r} "
                        f"(dt={dt!r}, window={win}, history={self.dpsi[-win:][-3:]})",
                        window=win,
                        after_warmup=cur["step"] > win,
                        **where,
                    )
                )
                self.tentative = got  # resynchronise so that one deviation is one report
        self.steps += 1
        return _first(V)


# ======================================================================================
class C13Screening:
    def __init__(self):
        self.iters = 0
        self.accepted_steps = 0
        self.max_kernel_err = 0.0
        self.max_final_err_ratio = 0.0

    def on_screen(self, sim, rec):
        c = get_ctx(sim)
        solver = sim.h.solver
        rm = c.rm
        self.iters += 1
        # accelerated kernel == direct double sum over the call's own arguments
        J_site = R.site_average(rm, np.asarray(rec["current_density"], dtype=float))
        pref = c.scales.screening_prefactor(c.lu)
        areas = pref * rm.areas * c.xi**2
        direct = R.induced_direct(J_site, areas, rm.sites * c.xi, rm.centers * c.xi)
        k = rec["kernel_out"]
        scale = float(np.max(np.abs(direct), initial=0.0)) + 1e-300
        err = max_err(k, direct) / scale
        self.max_kernel_err = max(self.max_kernel_err, err)
        V = []
        if err > si.SI_TOL:
            V.append(Violation("kernel-vs-direct", f"step {rec['step']} iteration {rec['iter']}: induced potential from the kernel differs from (mu_0/4pi) sum K a / r by {err:.3g} relative", step=rec["step"]))
        # relative mismatch as the property defines it, recomputed
        A_new = rec["A_new"]
        dA = np.linalg.norm(np.asarray(k) - rec["A_prev"], axis=1)
        den = np.maximum(np.linalg.norm(A_new, axis=1), 1e-20)
        my_err = float(np.max(dA / den))
        rec["my_err"] = my_err
        if abs(my_err - rec["err"]) > 1e-9 * (1 + my_err):
            V.append(Violation("screening-error-metric", f"step {rec['step']} iteration {rec['iter']}: reported relative mismatch {rec['err']:.6g}, recomputed {my_err:.6g}", step=rec["step"]))
        sim._last_screen = rec
        return V

    def on_step(self, sim, cur):
        o = sim.scn["options"]
        V = []
        if not o.get("include_screening"):
            A = np.asarray(cur["out"]["induced_vector_potential"])
            if np.any(A != 0):
                V.append(Violation("induced-nonzero", f"step {cur['step']}: screening disabled but the induced vector potential is non-zero (max {np.max(np.abs(A)):.3g})", step=cur["step"]))
            return V
        tol = o.get("screening_tolerance", 1e-3)
        self.accepted_steps += 1
        last = getattr(sim, "_last_screen", None)
        if last is None or last["step"] != cur["step"]:
            V.append(Violation("no-screening-iteration", f"step {cur['step']}: accepted without any screening iteration", step=cur["step"]))
            return V
        if not (last["my_err"] < tol):
            V.append(Violation("accepted-unconverged", f"step {cur['step']}: accepted after {cur['n_screen']} iterations with relative mismatch {last['my_err']:.3g} >= tolerance {tol:.3g}", step=cur["step"], iters=cur["n_screen"]))
        # stored potential reproduces the sum from the stored currents within a modest multiple of tol
        c = get_ctx(sim)
        rm = c.rm
        J = np.asarray(cur["out"]["supercurrent"]) + np.asarray(cur["out"]["normal_current"])
        J_site = R.site_average(rm, J)
        pref = c.scales.screening_prefactor(c.lu)
        direct = R.induced_direct(J_site, pref * rm.areas * c.xi**2, rm.sites * c.xi, rm.centers * c.xi)
        A = np.asarray(cur["out"]["induced_vector_potential"])
        # global relative mismatch; potentials at rounding-noise level carry no information
        Amax = float(np.max(np.linalg.norm(A, axis=1), initial=0.0))
        if Amax < 1e-10:
            return V
        ratio = float(np.max(np.linalg.norm(direct - A, axis=1))) / Amax / tol
        # stored - sum(stored currents) = v - dA of the last Polyak iteration (v: velocity kick)
        vmax = float(np.max(np.linalg.norm(last["A_new"] - last["A_prev"], axis=1)))
        dmax = float(np.max(np.linalg.norm(np.asarray(last["kernel_out"]) - last["A_prev"], axis=1)))
        momentum = vmax > 5 * dmax
        if not momentum:
            self.max_final_err_ratio = max(self.max_final_err_ratio, ratio)
        if ratio > 10.0:
            V.append(
                Violation(
                    "stored-not-self-consistent",
                    f"step {cur['step']}: stored induced potential differs from the sum over the stored currents by {ratio:.3g} x tolerance "
                    f"(last iteration: |velocity| {vmax:.3g}, |mismatch| {dmax:.3g}; step_size {o.get('screening_step_size')}, drag {o.get('screening_step_drag')})",
                    step=cur["step"],
                    momentum_dominated=bool(momentum),
                )
            )
        return V


# ======================================================================================
class C17Stationary:
    BOUND = 1e-9

    def __init__(self):
        self.max_dev = 0.0
        self.steps = 0

    def on_step(self, sim, cur):
        out = cur["out"]
        psi = np.asarray(out["psi"])
        mu = np.asarray(out["mu"])
        dev = {
            "|psi|-1": float(np.max(np.abs(np.abs(psi) - 1.0))),
            "supercurrent": float(np.max(np.abs(out["supercurrent"]))),
            "normal_current": float(np.max(np.abs(out["normal_current"]))),
            "mu-mean": float(np.max(np.abs(mu - mu.mean()))),
            "A_induced": float(np.max(np.abs(out["induced_vector_potential"]))),
            "phase": float(np.max(np.abs(np.angle(psi * np.conj(psi[0]))))),
        }
        worst = max(dev, key=dev.get)
        self.max_dev = max(self.max_dev, dev[worst])
        self.steps += 1
        if dev[worst] > self.BOUND:
            return [Violation("not-stationary", f"step {cur['step']} ({cur['stage']}): {worst} deviates by {dev[worst]:.3g} in an undriven run", quantity=worst, step=cur["step"])]
        return []
