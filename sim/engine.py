"""The simulator: runs one scenario of the real tdgl code inside an environment it owns.

Seams (all existing module attributes / public methods, see DESIGN.md 1.2):
  * ``tdgl.solver.solver.DataHandler`` / ``Runner``  -> recording subclasses
  * instance wrappers on ``TDGLSolver.update``, ``solve_for_psi_squared``,
    ``get_induced_vector_potential``, ``operators.set_link_exponents``
  * module attributes ``runner.subprocess``, ``runner.tempfile``, ``runner.time``,
    ``runner.datetime``, ``solver.datetime``, ``solution.datetime``, ``builtins.input``,
    ``numpy.random.default_rng``
  * ``sys.settrace`` line-level pre-emption inside runner.py / solver.py / operators.py
"""
import builtins
import datetime as _dt
import errno
import os
import shutil
import sys
import tempfile as _real_tempfile
import types

import numpy as np
from .common import aeq  # noqa: E402

from . import build as B
from .common import Discard, HarnessError, digest_arrays, digest_obj, quiet

VALUE_NAMES = (
    "psi",
    "mu",
    "supercurrent",
    "normal_current",
    "induced_vector_potential",
    "applied_vector_potential",
    "epsilon",
)

TRACE_FILES = ("solver/runner.py", "solver/solver.py", "finite_volume/operators.py")
# for guests scheduled at "the n-th line executed by the library in this stage", whatever the function
TRACE_FILES_ANY = TRACE_FILES + ("solution/data.py", "tdgl/parameter.py", "finite_volume/util.py", "solver/screening.py")
# functions whose line events are pre-emption points, grouped by the region of the
# property text they belong to ("update" / "writer" / other)
TRACE_FUNCS = {
    "update": "update",
    "adaptive_euler_step": "update",
    "solve_for_psi_squared": "update",
    "solve_for_observables": "update",
    "get_induced_vector_potential": "update",
    "update_mu_boundary": "update",
    "update_applied_vector_potential": "update",
    "update_epsilon": "update",
    "set_link_exponents": "update",
    "get_supercurrent": "update",
    "append": "update",
    "save_time_step": "writer",
    "_save_time_step": "writer",
    "save_step": "writer",
    "_run_stage": "loop",
    "clear": "loop",
}


class InjectedError(RuntimeError):
    """Payload of an injected crash (distinguishable from the library's own errors)."""


class InjectedMemoryError(MemoryError):
    pass


class SimStepCap(Exception):
    """Raised by the simulator to end a run that exceeded its step budget (runs are
    bounded; a capped run is truncated, never a violation)."""


def _payload(kind, tag):
    p = _payload0(kind, tag)
    _payload.last = p
    return p


def _payload0(kind, tag):
    if kind == "sigint":
        return KeyboardInterrupt(f"injected:{tag}")
    if kind == "enospc":
        return OSError(errno.ENOSPC, f"No space left on device (injected:{tag})")
    if kind == "mem":
        return InjectedMemoryError(f"injected:{tag}")
    return InjectedError(f"injected:{tag}")


class SimClock:
    """Simulated wall clock: advanced by scripted amounts (may jump backwards)."""

    def __init__(self, script):
        self.t = float(script.get("start", 1.7e9)) if script else 1.7e9
        self.steps = list(script.get("steps", [0.013])) if script else [0.013]
        self.i = 0
        self.perf = 100.0

    def _advance(self):
        d = self.steps[self.i % len(self.steps)]
        self.i += 1
        return d

    def now(self):
        self.t += self._advance()
        return self.t

    def perf_counter(self):
        # never stalls (a stalled perf_counter divides by zero in the progress line,
        # outside every listed property)
        self.perf += abs(self._advance()) + 1e-3
        return self.perf


def _make_fake_datetime(clock):
    class SimDateTime(_dt.datetime):
        @classmethod
        def now(cls, tz=None):
            return cls.fromtimestamp(clock.now(), tz=_dt.timezone.utc).replace(tzinfo=None)

    return SimDateTime


class History:
    """Everything recorded about one simulated run."""

    def __init__(self):
        self.events = []  # (kind, payload...) tuples; digest-only, JSON friendly
        self.stages = {"T": [], "S": []}  # per stage: list of update records
        self.frames = []  # captured save_time_step calls
        self.fixed = None
        self.outcome = None
        self.exc = None
        self.exc_obj = None
        self.solution = None
        self.out_path = None
        self.faults_fired = []
        self.guests_fired = []
        self.probes = {}
        self.fs_before = None
        self.fs_after = None
        self.h5_open_before = None
        self.h5_open_after = None
        self.tempdirs = []
        self.fs_events = []
        self.popen = []
        self.inputs = []
        self.construct_error = None
        self.line_counts = {}
        self.fire_info = None
        self.solver = None
        self.device = None
        self.tree = None
        self.ctx = None
        self.stage_names = []

    def ev(self, *a):
        self.events.append(a)

    def probe(self, name, n=1):
        self.probes[name] = self.probes.get(name, 0) + n

    def fingerprint(self):
        return digest_obj(self.events)


def listing(root):
    """Recursive listing {relpath: (size, sha)} of a directory."""
    import hashlib

    out = {}
    for d, dirs, files in os.walk(root):
        dirs.sort()
        rel = os.path.relpath(d, root)
        if rel != ".":
            out[rel + "/"] = None
        for f in sorted(files):
            p = os.path.join(d, f)
            try:
                with open(p, "rb") as fh:
                    data = fh.read()
                out[os.path.normpath(os.path.join(rel, f))] = (len(data), hashlib.sha256(data).hexdigest()[:12])
            except OSError as e:  # pragma: no cover
                out[os.path.normpath(os.path.join(rel, f))] = ("unreadable", str(e))
    return out


def h5_open_count():
    import h5py

    return h5py.h5f.get_obj_count(h5py.h5f.OBJ_ALL, h5py.h5f.OBJ_ALL)


class Sim:
    """One simulated run of a scenario.

    checkers: objects with optional methods on_attempt(sim, rec), on_refresh(sim, rec),
    on_screen(sim, rec), on_step(sim, rec), on_frame(sim, rec) -> list of Violations,
    called *at the seam, at call time* (operators & co. are mutated in place).
    """

    def __init__(self, scn, checkers=(), root=None, trace=None, keep_arrays=True, mesh_from=None):
        self.scn = scn
        self.checkers = list(checkers)
        self.h = History()
        self.violations = []
        self.own_root = root is None
        self.root = root or _real_tempfile.mkdtemp(prefix="tdglsim-")
        self.stage = None
        self.n_started = {"T": 0, "S": 0}
        self.n_done = {"T": 0, "S": 0}
        self.faults = [dict(f) for f in scn.get("faults", [])]
        for f in self.faults:
            f["_fired"] = False
        self.trace_mode = trace  # None | "count" | "inject"
        self.keep_arrays = keep_arrays
        self.mesh_from = mesh_from
        self.clock = SimClock(scn.get("env", {}).get("clock"))
        self.cur = None  # current update record
        self._patches = []
        self._line_counts = {}
        self._line_counts_after = {}
        self._in_oracle = False
        self.alias_violations = []
        self._line_fault = None
        self._line_seen = 0
        self._in_update = False
        self.create_attempts = 0
        self.max_updates = scn.get("max_updates", 400)
        self.max_screen = scn.get("max_screen_iters", 4000)
        self.total_screen = 0
        self.psi_init_hook = None
        self.seed_solution = None
        self.options_from = None
        self.options_as_is = None
        self.keep_output = False
        self.stub_state = {}
        # schedule decisions "another simulation runs here": a second solve on the same Device object is
        # executed to completion at a seam of the run under test (what a second caller thread, or a sweep
        # driven from a callback, interleaves with it); not a fault - kept apart from self.faults
        self.guests = [dict(g) for g in scn.get("guests", [])]
        for g in self.guests:
            g["_fired"] = False
            g["_seen"] = 0
        self._line_guests = [g for g in self.guests if g["at"].get("point") == "line" and g["at"].get("func") != "*"]
        self._any_line_guests = [g for g in self.guests if g["at"].get("point") == "line" and g["at"].get("func") == "*"]
        self._any_lines = 0
        self._within = None  # "psi" | "screen" | "refresh" | "writer": the seam whose real code is executing

    # ----------------------------------------------------------------------------------
    def add_violation(self, v):
        if v:
            self.violations.append(v)

    def _call_checkers(self, name, rec):
        for c in self.checkers:
            fn = getattr(c, name, None)
            if fn is not None:
                try:
                    self._in_oracle = True  # library code run by an oracle is not a pre-emption point
                    try:
                        vs = fn(self, rec) or ()
                    finally:
                        self._in_oracle = False
                except (Discard, HarnessError):
                    raise
                except Exception as e:  # a bug in an oracle must never look like a tdgl error
                    import traceback

                    raise HarnessError(f"checker {type(c).__name__}.{name} raised {type(e).__name__}: {e}\n{traceback.format_exc()}")
                for v in vs:
                    self.violations.append(v)

    # ------------------------------------------------------------------ fault plumbing
    def _fire(self, f, tag):
        f["_fired"] = True
        runner = getattr(self, "runner", None)
        self.h.fire_info = {
            "tag": tag,
            "kind": f["kind"],
            "stage": self.stage,
            "loop_step": int(runner.state.get("step", -1)) if runner is not None else None,
            "in_update": self.cur is not None,
            "in_writer": bool(self.h.frames) and not self.h.frames[-1]["completed"] and self.h.frames[-1].get("open", False),
            "n_done": dict(self.n_done),
            "frames_completed": sum(1 for fr in self.h.frames if fr["completed"]),
        }
        self.h.faults_fired.append({k: v for k, v in f.items() if not k.startswith("_")})
        self.h.ev("fault", f["kind"], tag)
        self.h.probe("fault:" + f["kind"])

    def _guests_at(self, point, step):
        for g in self.guests:
            at = g["at"]
            if g["_fired"] or at.get("point") != point or at.get("stage", "S") != self.stage:
                continue
            if at.get("step") is not None and at["step"] != step:
                continue
            g["_seen"] += 1
            if g["_seen"] - 1 != at.get("nth", 0):
                continue
            g["_fired"] = True
            self._run_guest(g, f"{point}@{self.stage}{step}")

    def _run_guest(self, g, tag):
        """Run another simulation on the same Device object, here, to completion, outside the simulator's
        seams (real data handler, real temporary directory); what it does to itself is not judged - what it
        does to the run under test is (online invariants, aliasing invariant, twin comparison)."""
        import dataclasses as _dc

        import tdgl

        h = self.h
        what = g.get("what", {})
        h.ev("guest", tag, what.get("mode", "same"))
        h.probe("guest:" + g["at"]["point"])
        h.guests_fired.append({"at": {k: v for k, v in g["at"].items() if not k.startswith("_")}, "what": dict(what), "tag": tag, "in_update": self.cur is not None})
        names = ("DataHandler", "Runner", "h5py", "tempfile", "subprocess", "input")
        swapped = []
        for obj, name, old, had in self._patches:
            if name in names and had:
                swapped.append((obj, name, getattr(obj, name)))
                setattr(obj, name, old)
        old_trace = sys.gettrace()
        sys.settrace(None)
        was_oracle = self._in_oracle
        self._in_oracle = True
        try:
            solver = None
            if what.get("mode") == "sibling" and getattr(self, "sibling", None) is not None:
                solver = self.sibling
            else:
                main = h.solver
                opts = _dc.replace(main.options, output_file=None)
                opts.solve_time = float(opts.dt_init) * int(what.get("steps", 2))
                opts.skip_time = 0.0
                opts.progress_interval = 1000000
                opts.monitor = False
                opts.pause_on_interrupt = False
                if what.get("save_every"):
                    opts.save_every = int(what["save_every"])
                if "screening" in what:
                    opts.include_screening = bool(what["screening"])
                if opts.include_screening:
                    opts.max_iterations_per_step = min(int(opts.max_iterations_per_step), 300)
                if what.get("terminal_psi", "same") != "same":
                    opts.terminal_psi = what["terminal_psi"]
                drive = self.scn["drive"]
                cur_spec = drive.get("currents")
                if what.get("currents_scale") is not None:
                    cur_spec = B.scale_current_spec(cur_spec, what["currents_scale"])  # another point of a current sweep
                eps_spec = what["epsilon"] if "epsilon" in what else drive.get("epsilon")
                if what.get("field", "shared") == "shared":
                    field = self.A_obj  # the very object the run under test evaluates (Parameter caches included)
                else:
                    field, _ = B.build_field(what["field"], h.ctx)
                try:
                    solver = tdgl.TDGLSolver(
                        h.device,
                        opts,
                        applied_vector_potential=field,
                        terminal_currents=B.build_currents(cur_spec),
                        disorder_epsilon=B.build_epsilon(eps_spec),
                    )
                except (RuntimeError, ValueError, FloatingPointError) as e:
                    # the other simulation's own problem was rejected (its validator sampled other times): that is
                    # the other caller's error, it must not surface in the run under test
                    h.probe("guest_rejected:" + type(e).__name__)
                    return
            try:
                solver.solve()
                h.probe("guest_completed")
            except (RuntimeError, ValueError, FloatingPointError) as e:
                h.probe("guest_failed:" + type(e).__name__)  # a guest that does not converge is history too
        finally:
            self._in_oracle = was_oracle
            for obj, name, val in swapped:
                setattr(obj, name, val)
            sys.settrace(old_trace)

    def fault_at(self, point, step=None):
        """Boundary fault points: raise the scheduled payload if one matches."""
        if self.guests and not self._in_oracle:
            self._guests_at(point, step)
        for f in self.faults:
            if f["_fired"] or f["kind"] not in ("exc", "sigint", "enospc", "mem"):
                continue
            at = f["at"]
            if at.get("point") != point:
                continue
            if at.get("stage", "S") != self.stage:
                continue
            if at.get("step") is not None and at["step"] != step:
                continue
            if at.get("final_save") and not self.h.faults_fired:
                continue
            if at.get("nth") is not None:
                at["_seen"] = at.get("_seen", 0) + 1
                if at["_seen"] - 1 != at["nth"]:
                    continue
            self._fire(f, f"{point}@{self.stage}{step}")
            raise _payload(f["kind"], f"{point}@{self.stage}{step}")

    def refuse_now(self, step, attempt):
        for f in self.faults:
            if f["kind"] != "refuse":
                continue
            at = f["at"]
            if at.get("stage", "S") == self.stage and at["step"] == step and attempt in at["attempts"] and at.get("iter", 0) == (self.cur["n_screen"] if self.cur else 0):
                if not f["_fired"]:
                    f["_fired"] = True
                    self.h.faults_fired.append({k: v for k, v in f.items() if not k.startswith("_")})
                self.h.probe("fault:refuse")
                return True
        return False

    # ---------------------------------------------------------------- line pre-emption
    def _global_trace(self, frame, event, arg):
        if self._in_oracle:
            return None
        code = frame.f_code
        fn = code.co_filename
        if code.co_name in TRACE_FUNCS and fn.endswith(TRACE_FILES):
            return self._local_trace
        if self._any_line_guests and fn.endswith(TRACE_FILES_ANY):
            return self._local_trace_any
        return None

    def _any_line(self, frame):
        """One more line of library code executed in the current stage: guests scheduled by line count."""
        if self.stage is None or self._in_oracle:
            return
        self._any_lines += 1
        for g in self._any_line_guests:
            if g["_fired"] or g["at"].get("stage", self.stage) != self.stage:
                continue
            w_ = g["at"].get("within")
            if w_ is not None and w_ != self._within:
                continue
            n = g["_seen"]
            g["_seen"] = n + 1
            if g["at"]["ordinal"] == n:
                g["_fired"] = True
                self.h.probe("guestloc:%s:%d" % (frame.f_code.co_name, frame.f_lineno))
                self._run_guest(g, f"line:*#{n}:{frame.f_code.co_name}:L{frame.f_lineno}")

    def _local_trace_any(self, frame, event, arg):
        if event == "line":
            self._any_line(frame)
        return self._local_trace_any

    def _local_trace(self, frame, event, arg):
        if event != "line":
            return self._local_trace
        name = frame.f_code.co_name
        key = name
        if self._any_line_guests:
            self._any_line(frame)
        n = self._line_counts.get(key, 0)
        self._line_counts[key] = n + 1
        fired_before = bool(self.h.faults_fired)
        if fired_before:
            m = self._line_counts_after.get(key, 0)
            self._line_counts_after[key] = m + 1
        if self._line_guests:
            for g in self._line_guests:
                if not g["_fired"] and g["at"]["func"] == name and g["at"]["ordinal"] == n and g["at"].get("stage", self.stage) == self.stage:
                    g["_fired"] = True
                    g["at"]["_lineno"] = frame.f_lineno
                    self.h.probe("guestloc:%s:%d" % (name, frame.f_lineno))
                    self._run_guest(g, f"line:{name}#{n}:L{frame.f_lineno}")
        lf = self._line_fault
        if lf is not None and not lf["_fired"]:
            at = lf["at"]
            if at.get("final_save"):
                # second fault of a sequence: counted from the moment the first fault fired
                hit = fired_before and at["func"] == name and at.get("ordinal_rel", 0) == m
            else:
                hit = at["func"] == name and at["ordinal"] == n
            if hit and at.get("stage", self.stage) == self.stage:
                tag = f"line:{name}#{n}:L{frame.f_lineno}"
                at["_lineno"] = frame.f_lineno
                self._fire(lf, tag)
                self.h.probe("crashloc:%s:%d" % (name, frame.f_lineno))
                raise _payload(lf["kind"], tag)
        return self._local_trace

    # ------------------------------------------------------------------- patch helpers
    def _patch(self, obj, name, value):
        sentinel = object()
        old = obj.__dict__.get(name, sentinel) if hasattr(obj, "__dict__") else getattr(obj, name, sentinel)
        had = old is not sentinel
        self._patches.append((obj, name, old, had))
        setattr(obj, name, value)

    def _unpatch_all(self):
        for obj, name, old, had in reversed(self._patches):
            if had:
                setattr(obj, name, old)
            else:
                try:
                    delattr(obj, name)
                except AttributeError:
                    pass
        self._patches.clear()
        dn = getattr(self, "_devnull", None)
        if dn is not None:
            dn.close()
            self._devnull = None

    # --------------------------------------------------------------------- environment
    def _install_env(self):
        import tdgl.solution.solution as m_solution
        import tdgl.solver.runner as m_runner
        import tdgl.solver.solver as m_solver

        sim = self
        h = self.h
        FakeDT = _make_fake_datetime(self.clock)
        self._patch(m_runner, "datetime", FakeDT)
        self._patch(m_solver, "datetime", FakeDT)
        self._patch(m_solution, "datetime", FakeDT)
        self._patch(m_runner, "time", types.SimpleNamespace(perf_counter=self.clock.perf_counter))

        real_tqdm = m_runner.tqdm
        devnull = open(os.devnull, "w")
        self._devnull = devnull

        def quiet_tqdm(*a, **kw):
            kw["file"] = devnull  # the real progress bar runs; its output goes nowhere
            return real_tqdm(*a, **kw)

        self._patch(m_runner, "tqdm", quiet_tqdm)

        def fake_popen(cmd, **kw):
            h.popen.append(list(cmd))
            h.ev("popen", len(cmd))
            return types.SimpleNamespace(pid=0)

        self._patch(m_runner, "subprocess", types.SimpleNamespace(Popen=fake_popen))

        tmp_parent = os.path.join(self.root, "systmp")
        os.makedirs(tmp_parent, exist_ok=True)

        def fake_tempdir(*a, **kw):
            kw["dir"] = tmp_parent
            td = _real_tempfile.TemporaryDirectory(*a, **kw)
            h.tempdirs.append(td.name)
            h.fs_events.append(("tempdir", len(h.tempdirs)))
            h.ev("fs", "tempdir", len(h.tempdirs))
            return td

        def fake_mkdtemp(*a, **kw):
            kw["dir"] = tmp_parent
            name = _real_tempfile.mkdtemp(*a, **kw)
            h.tempdirs.append(name)
            h.fs_events.append(("tempdir", len(h.tempdirs)))
            h.ev("fs", "tempdir", len(h.tempdirs))
            return name

        # the whole tempfile API is there (a library change may reach for another factory); the two that
        # create directories are recorded and confined to the run's scratch root
        tmp_shim = types.ModuleType("tempfile_shim")
        tmp_shim.__dict__.update({k: v for k, v in _real_tempfile.__dict__.items() if not k.startswith("__")})
        tmp_shim.TemporaryDirectory = fake_tempdir
        tmp_shim.mkdtemp = fake_mkdtemp
        tmp_shim.tempdir = tmp_parent
        self._patch(m_runner, "tempfile", tmp_shim)

        answers = list(self.scn.get("observer", {}).get("answers", []))

        def fake_input(prompt=""):
            h.inputs.append(prompt[:40])
            if not answers:
                h.ev("input", "EOF")
                raise EOFError("scripted EOF")
            a = answers.pop(0)
            h.ev("input", a)
            return a

        self._patch(builtins, "input", fake_input)

        rng_seed = self.scn.get("env", {}).get("rng_seed", 12345)
        real_default_rng = np.random.default_rng
        calls = [0]

        def fake_default_rng(seed=None):
            if seed is None:
                calls[0] += 1
                h.probe("validator_rng")
                return real_default_rng(rng_seed + calls[0])
            return real_default_rng(seed)

        self._patch(np.random, "default_rng", fake_default_rng)

        # ---- file events through the runner's h5py name
        import h5py as real_h5py

        def sim_File(name, mode="r", *a, **kw):
            rel = sim._norm(name)
            if mode == "x":
                sim.create_attempts += 1
                if sim.create_attempts > 2000:
                    raise HarnessError("livelock in exclusive-create loop")
            try:
                f = real_h5py.File(name, mode, *a, **kw)
            except BaseException as e:
                h.fs_events.append(("h5open-fail", rel, mode))
                h.ev("fs", "h5open-fail", rel, mode, type(e).__name__)
                raise
            h.fs_events.append(("h5open", rel, mode))
            h.ev("fs", "h5open", rel, mode)
            return f

        shim = types.ModuleType("h5py_shim")
        shim.__dict__.update({k: v for k, v in real_h5py.__dict__.items() if not k.startswith("__")})
        shim.File = sim_File
        self._patch(m_runner, "h5py", shim)

        # ---- recording subclasses of the data handler and the runner
        class SimDataHandler(m_runner.DataHandler):
            def __enter__(self_dh):
                h.ev("dh", "enter")
                r = super().__enter__()
                h.out_path = self_dh.output_path
                sim._dh = self_dh
                return r

            def __exit__(self_dh, et, ev_, tb):
                h.ev("dh", "exit", et.__name__ if et else None)
                return super().__exit__(et, ev_, tb)

            def save_fixed_values(self_dh, fixed_data):
                sim.fault_at("fixed.before")
                h.fixed = {k: np.array(v, copy=True) for k, v in fixed_data.items()}
                h.ev("fixed", sorted(fixed_data))
                return super().save_fixed_values(fixed_data)

            def save_time_step(self_dh, state, data, running_state):
                step = int(state["step"])
                rec = {
                    "number": self_dh.save_number,
                    "step": step,
                    "time": float(state["time"]),
                    "dt": float(state["dt"]),
                    "stage": sim.stage,
                    "data": {k: np.array(v, copy=True) for k, v in data.items()},
                    "running": None
                    if running_state is None
                    else {k: np.array(v, copy=True) for k, v in running_state.items()},
                    "completed": False,
                    "n_done": sim.n_done[sim.stage] if sim.stage else None,
                }
                h.frames.append(rec)
                h.ev("frame", rec["number"], step, repr(rec["time"]), digest_arrays(*[rec["data"][k] for k in sorted(rec["data"])]))
                sim.fault_at("save.before", step)
                rec["open"] = True
                prev_w = sim._within
                sim._within = "writer"
                try:
                    r = super().save_time_step(state, data, running_state)
                finally:
                    rec["open"] = False
                    sim._within = prev_w
                rec["completed"] = True
                sim._call_checkers("on_frame", rec)
                sim.fault_at("save.after", step)
                return r

        class SimRunner(m_runner.Runner):
            def _run_stage(self_r, name, start_time, end_time, save=True):
                sim.stage = "T" if name.startswith("Therm") else "S"
                sim.runner = self_r
                h.stage_names.append(name)
                h.ev("stage", sim.stage, repr(float(end_time)), bool(save))
                try:
                    r = super()._run_stage(name, start_time, end_time, save=save)
                finally:
                    h.ev("stage-end", sim.stage)
                h.ev("stage-result", sim.stage, bool(r))
                return r

        self._patch(m_solver, "DataHandler", SimDataHandler)
        self._patch(m_solver, "Runner", SimRunner)

    def _norm(self, path):
        p = os.path.abspath(str(path))
        for i, td in enumerate(self.h.tempdirs):
            if p.startswith(td):
                return f"<TMP{i}>" + p[len(td):]
        if p.startswith(self.root):
            return "<ROOT>" + p[len(self.root):]
        return p

    # ---------------------------------------------------------------- solver seams
    def _install_solver_seams(self, solver):
        import tdgl

        sim = self
        h = self.h
        real_update = solver.update
        real_psi = tdgl.TDGLSolver.solve_for_psi_squared
        real_giv = solver.get_induced_vector_potential
        ops = solver.operators
        real_sle = ops.set_link_exponents
        stub = self.scn.get("physics") == "stub"

        def psi_wrapper(**kw):
            cur = sim.cur
            attempt = len(cur["attempts"]) if cur is not None else 0
            step = cur["step"] if cur is not None else -1
            rec = {
                "step": step,
                "stage": sim.stage,
                "attempt": attempt,
                "screen_iter": cur["n_screen"] if cur is not None else 0,
                "dt": float(kw["dt"]),
                "kw": kw,
                "injected": False,
            }
            sim.fault_at("attempt", step)
            if sim.refuse_now(step, cur["attempts_this_iter"] if cur is not None else 0):
                rec["injected"] = True
                rec["result"] = None
            else:
                prev_w = sim._within
                sim._within = "psi"
                try:
                    rec["result"] = real_psi(**kw)
                finally:
                    sim._within = prev_w
            rec["refused"] = rec["result"] is None
            if cur is not None:
                cur["attempts"].append((rec["dt"], rec["refused"], rec["injected"], cur["n_screen"]))
                cur["attempts_this_iter"] += 1
            h.ev("attempt", sim.stage, step, repr(rec["dt"]), rec["refused"], rec["injected"])
            if rec["refused"] and not rec["injected"]:
                h.probe("natural_refusal")
            sim._call_checkers("on_attempt", rec)
            return rec["result"]

        def giv_wrapper(current_density, A_induced_vals, velocity):
            cur = sim.cur
            rec = {
                "step": cur["step"] if cur else -1,
                "iter": cur["n_screen"] if cur else 0,
                "current_density": np.array(current_density, copy=True),
                "A_prev": np.array(A_induced_vals[-1], copy=True),
            }
            sim.fault_at("screen", rec["step"])
            prev_w = sim._within
            sim._within = "screen"
            try:
                A, err = real_giv(current_density, A_induced_vals, velocity)
            finally:
                sim._within = prev_w
            rec["A_new"] = np.array(A, copy=True)
            rec["kernel_out"] = np.array(solver.new_A_induced, copy=True)
            rec["err"] = err
            sim.total_screen += 1
            if sim.total_screen > sim.max_screen:
                h.probe("step_cap")
                raise SimStepCap(f"screening budget exhausted ({sim.total_screen} iterations)")
            if cur is not None:
                cur["n_screen"] += 1
                cur["attempts_this_iter"] = 0
                cur["screen_errs"].append(float(err))
            h.ev("screen", rec["step"], rec["iter"], repr(float(err)))
            sim._call_checkers("on_screen", rec)
            return A, err

        def sle_wrapper(link_exponents):
            rec = {
                "step": sim.cur["step"] if sim.cur else -1,
                "arg": np.array(link_exponents, copy=True),
                "first": ops.psi_gradient is None,
            }
            sim.fault_at("refresh.before", rec["step"])
            prev_w = sim._within
            sim._within = "refresh"
            try:
                r = real_sle(link_exponents)
            finally:
                sim._within = prev_w
            if sim.cur is not None:
                sim.cur["n_refresh"] += 1
            h.ev("refresh", rec["step"], digest_arrays(rec["arg"]))
            h.probe("refresh")
            sim._call_checkers("on_refresh", rec)
            return r

        def update_wrapper(state, running_state, dt, **values):
            st = sim.stage
            step = int(state["step"])
            n = sim.n_started[st]
            if sim.n_started["T"] + sim.n_started["S"] >= sim.max_updates or sim.total_screen > sim.max_screen:
                h.probe("step_cap")
                raise SimStepCap(f"step budget exhausted ({sim.n_started}, {sim.total_screen} screening iterations)")
            sim.n_started[st] += 1
            cur = {
                "stage": st,
                "n": n,
                "step": step,
                "time": float(state["time"]),
                "dt_in": float(dt),
                "attempts": [],
                "attempts_this_iter": 0,
                "n_screen": 0,
                "screen_errs": [],
                "n_refresh": 0,
                "in": {k: (np.array(v, copy=True) if v is not None else None) for k, v in values.items()} if sim.keep_arrays else None,
                "out": None,
                "dt": None,
                "rs_step": int(running_state.step),
                "tentative_before": float(getattr(solver, "tentative_dt", np.nan)),
                "mu_boundary_before": None,
            }
            sim.cur = cur
            sim.h.stages[st].append(cur)
            h.ev("update", st, step, repr(cur["time"]), repr(cur["dt_in"]))
            sim._call_checkers("on_update_start", cur)
            sim.fault_at("update.before", step)
            try:
                if stub:
                    result = sim._stub_update(solver, state, running_state, dt, values)
                else:
                    result = real_update(state, running_state, dt, **values)
            finally:
                # the state the runner holds (and will save if the step is abandoned) must not be
                # mutated in place by the update
                if cur["in"] is not None:
                    for k_, v_ in values.items():
                        if v_ is not None and not aeq(np.asarray(v_), cur["in"][k_]):
                            sim.alias_violations.append((st, step, k_))
                            h.probe("input_mutated_in_place")
                            break
            cur["dt"] = float(result[0])
            names = list(values)
            outs = list(result[1:])
            cur["out"] = {k: np.array(v, copy=True) for k, v in zip(names, outs)}
            cur["tentative_after"] = float(getattr(solver, "tentative_dt", np.nan))
            cur["mu_boundary"] = np.array(solver.mu_boundary, copy=True)
            cur["rs_row"] = {k: np.array(v[:, running_state.step], copy=True) for k, v in running_state.values.items()}
            sim.n_done[st] += 1
            h.ev("step", st, step, repr(cur["dt"]), digest_arrays(*[cur["out"][k] for k in names]), len(cur["attempts"]), cur["n_screen"])
            sim._call_checkers("on_step", cur)
            sim.cur = None
            sim.fault_at("update.after", step)
            return result

        solver.update = update_wrapper
        solver.solve_for_psi_squared = psi_wrapper
        solver.get_induced_vector_potential = giv_wrapper
        ops.set_link_exponents = sle_wrapper

    # ----------------------------------------------------------------- stub physics
    def _stub_update(self, solver, state, running_state, dt, values):
        """Loop-only engine: values encode the number of updates applied so far."""
        st = self.stage
        spec = self.scn["stub"]
        n = self.n_done[st]
        script = spec.get("dts_" + st, [])
        dt_used = script[n] if n < len(script) else spec.get("default_dt", self.scn["options"].get("dt_init", 0.01))
        base = (1000.0 if st == "T" else 0.0) + n + 1
        out = []
        for k, v in values.items():
            if v is None:
                continue
            a = np.asarray(v)
            if k == "psi":
                out.append(np.full(a.shape, base + 0.25j, dtype=complex))
            elif k == "normal_current":
                out.append(np.full(a.shape, -base))
            else:
                out.append(np.full(a.shape, base + 0.01 * len(out)))
        running_state.append("dt", dt_used)
        if solver.probe_points is not None:
            npp = len(solver.probe_points)
            running_state.append("mu", base + 0.1 * np.arange(npp))
            running_state.append("theta", -base - 0.1 * np.arange(npp))
        if solver.options.include_screening:
            running_state.append("screening_iterations", int(base) % 997)
        return [dt_used] + out

    def _prepare_device(self):
        """Device and its life cycle (built before the simulated environment is installed: what happened
        to the Device object earlier belongs to the scenario's past, not to the run under observation)."""
        import tdgl

        scn = self.scn
        h = self.h
        dev_spec = scn["device"]
        if getattr(self, "device_object", None) is not None:
            # the caller continues with a Device object it already holds (and may have edited in place)
            return self.device_object
        shared = scn.get("mesh_shared_with_wellposed")
        if shared:
            # device life cycle: the device under test re-uses the mesh of a sibling device that differs from it
            # only in its terminals (the mesh depends on film and holes alone) and that was looked at / used first
            import copy as _copy

            good_spec = _copy.deepcopy(dev_spec)
            for t_ in good_spec["terminals"]:
                t_.pop("inside", None)
            good = B.build_device(good_spec, mesh_from=self.mesh_from)
            good.terminal_info()
            if shared.get("used"):
                self._prior_use(good, {"steps": 2, "B": 0.1, "terminal_psi": "zero"})
            device = B.build_device(dev_spec, mesh_from=good.mesh)
            h.probe("mesh_shared_with_sibling_device")
        else:
            device = B.build_device(dev_spec, mesh_from=self.mesh_from, history=scn.get("device_history"))
        self.base_mesh = device.mesh  # the dimensionless mesh before any life cycle touched the device
        used = scn.get("device_used_before") or scn.get("env", {}).get("device_used_before")
        if used:
            # device life cycle: this very Device object was already simulated on (another field, a few
            # steps) before the run under test - and before it is moved / saved / copied
            device = device.copy(with_mesh=True)
            was = used.get("layer_was") or {}
            for attr_, val_ in was.items():
                # the film had other material parameters when it was used before (a penetration-depth or
                # thickness sweep on one meshed device): they are assigned in place afterwards
                setattr(device.layer, attr_, val_)
            self._prior_use(device, used)
            for attr_ in was:
                setattr(device.layer, attr_, {"london_lambda": dev_spec["layer"]["lam"], "thickness": dev_spec["layer"]["d"], "gamma": dev_spec["layer"]["gamma"], "u": dev_spec["layer"]["u"]}[attr_])
            h.probe("device_used_before")
        mv = scn.get("device_moved")
        if mv:
            # device life cycle: the meshed device is translated in place before it is used (the cached
            # object is never touched: work on a copy that keeps the mesh; a device that was used before
            # is already a private object, and it is that very object which is moved)
            if not used:
                device = device.copy(with_mesh=True)
            xi_ = dev_spec["layer"]["xi"]
            device.translate(mv["dx"] * xi_, mv["dy"] * xi_, dz=mv.get("dz", 0.0) * xi_, inplace=True)
            h.probe("device_moved")
        if scn.get("device_restored"):
            # device life cycle: the meshed device was saved in an earlier session and the run uses the
            # object read back from that file
            pth = os.path.join(self.root, f"restored_device_{len(os.listdir(self.root))}.h5")
            try:
                device.to_hdf5(pth)
                device = tdgl.Device.from_hdf5(pth)
            finally:
                if os.path.exists(pth):
                    os.remove(pth)
            h.probe("device_restored")
        ro = scn.get("mesh_reoriented")
        if ro and self.mesh_from is None:
            # a mesh whose edge list is not in (low, high) orientation - legal for the public Mesh / EdgeMesh
            # constructors and for files written by other tools: some edges are stored as (end, start) with
            # the opposite direction vector; everything else is the same mesh
            import random as _random

            from tdgl.finite_volume.edge_mesh import EdgeMesh as _EdgeMesh
            from tdgl.finite_volume.mesh import Mesh as _Mesh

            m_ = device.mesh
            em_ = m_.edge_mesh
            rng_ = _random.Random(int(ro.get("seed", 0)))
            flip = np.array([rng_.random() < ro.get("frac", 0.3) for _ in range(len(em_.edges))], dtype=bool)
            edges_ = np.array(em_.edges, copy=True)
            dirs_ = np.array(em_.directions, copy=True)
            edges_[flip] = edges_[flip][:, ::-1]
            dirs_[flip] = -dirs_[flip]
            em2 = _EdgeMesh(np.array(em_.centers, copy=True), edges_, np.array(em_.boundary_edge_indices, copy=True), dirs_, np.array(em_.edge_lengths, copy=True), np.array(em_.dual_edge_lengths, copy=True))
            m2 = _Mesh(np.array(m_.sites, copy=True), np.array(m_.elements, copy=True), np.array(m_.boundary_indices, copy=True), areas=np.array(m_.areas, copy=True), dual_sites=np.array(m_.dual_sites, copy=True), edge_mesh=em2, voronoi_polygons=m_.voronoi_polygons)
            device = device.copy(with_mesh=True)
            device.mesh = m2
            h.probe("mesh_reoriented")
        dd = scn.get("device_derived")
        if dd:
            # device life cycle: the run uses a Device derived from the meshed one (a copy, a deep copy, a
            # pickled copy, or the re-meshed result of an identity transform), as a script that prepares
            # variants of one device does; "copy+orig-moved" then moves the original in place
            import copy as _copy
            import pickle as _pickle

            if dd == "copy":
                device = device.copy(with_mesh=True)
            elif dd == "copy+orig-moved":
                orig = device.copy(with_mesh=True)
                device = orig.copy(with_mesh=True)
                xi_ = dev_spec["layer"]["xi"]
                orig.translate(1.3 * xi_, -0.7 * xi_, inplace=True)
                self._orig_device = orig
            elif dd == "deepcopy":
                device = _copy.deepcopy(device)
            elif dd == "pickle":
                device = _pickle.loads(_pickle.dumps(device))
            elif dd in ("rotate0", "scale1") and self.mesh_from is None:
                new_dev = device.rotate(0) if dd == "rotate0" else device.scale(xfact=1, yfact=1)
                m_ = dev_spec.get("mesh", {})
                mel_ = m_.get("max_edge_length", 0)
                try:
                    new_dev.make_mesh(max_edge_length=(mel_ * dev_spec["layer"]["xi"] if mel_ else 0), min_points=m_.get("min_points"), smooth=m_.get("smooth", 0))
                except Exception as e:
                    raise Discard(f"mesh: {type(e).__name__}: {str(e)[:80]}")
                device = new_dev
            h.probe("device_derived")
        return device

    def _prior_use(self, device, used):
        import tdgl

        o = self.scn["options"]
        dt = 0.01
        opts = tdgl.SolverOptions(
            solve_time=dt * int(used.get("steps", 3)),
            dt_init=dt,
            adaptive=False,
            save_every=100,
            progress_interval=1000000,
            field_units=o.get("field_units", "mT"),
            current_units=o.get("current_units", "uA"),
            include_screening=bool(used.get("screening", False)),
            terminal_psi=(None if used.get("terminal_psi") == "none" else 0.0),
        )
        try:
            tdgl.TDGLSolver(device, opts, applied_vector_potential=float(used.get("B", 0.1))).solve()
        except RuntimeError:
            pass  # an earlier run that failed to converge is history too

    # --------------------------------------------------------------------------- run
    def construct(self):
        """Build device, drives, options and the solver. Returns solver or None (rejected)."""
        import tdgl

        scn = self.scn
        h = self.h
        dev_spec = scn["device"]
        if self._device_error is not None:
            raise self._device_error
        device = self._device
        h.device = device
        if device.terminals and not scn.get("allow_empty_terminal"):
            for ti in device.terminal_info():
                if len(ti.boundary_edge_indices) < 1:
                    raise Discard("terminal-covers-no-edge")
        ctx = B.make_ctx(dev_spec, scn["options"])
        h.ctx = ctx
        field = scn["drive"].get("field", {"kind": "zero"})
        A_obj, tree = B.build_field(field, ctx)
        h.tree = tree
        currents = B.build_currents(scn["drive"].get("currents"))
        eps = B.build_epsilon(scn["drive"].get("epsilon"))
        out = scn.get("observer", {}).get("output")
        out_file = None
        if out is not None:
            out_file = out["path"]
            if out.get("absolute", True):
                out_file = os.path.join(self.workdir, out_file)
        late = scn.get("options_late")
        if self.options_as_is is not None:
            # the caller continues with the options object an earlier run's file gave back, untouched
            # apart from the output destination
            options = self.options_as_is
            options.output_file = out_file
        elif self.options_from is not None:
            # the caller re-uses (and mutates in place) the options instance of an earlier run
            options = self.options_from
            fresh = B.build_options(scn["options"], out_file)
            import dataclasses as _dc

            for f_ in _dc.fields(fresh):
                setattr(options, f_.name, getattr(fresh, f_.name))
        elif late:
            # option life cycle: the options object passed validation, was then changed in place
            first = dict(scn["options"])
            for k in late["updates"]:
                first[k] = late["valid"].get(k, B.OPTION_DEFAULTS.get(k))
                if first[k] is None and k not in ("terminal_psi",):
                    first.pop(k)
            options = B.build_options(first, out_file)
            if late["phase"] == "pre":
                options.validate()
                B.apply_option_updates(options, late["updates"])
        else:
            options = B.build_options(scn["options"], out_file)
        self.options = options
        kw = {}
        if self.seed_solution is not None:
            kw["seed_solution"] = self.seed_solution
        sib = scn.get("sibling")

        def make_sibling():
            # a second solver object alive on the SAME device with another applied field (a user
            # preparing a field sweep): it must not share mutable operators with the solver under test
            import dataclasses as _dc

            sib_field, _ = B.build_field(sib["field"], ctx)
            sib_opts = _dc.replace(options, output_file=None)
            if sib.get("terminal_psi", "same") != "same":
                # the sibling treats the terminals differently (pinned vs left free)
                sib_opts.terminal_psi = sib["terminal_psi"]
            self.sibling = tdgl.TDGLSolver(
                device,
                sib_opts,
                applied_vector_potential=sib_field,
                terminal_currents=B.build_currents(scn["drive"].get("currents")),
                disorder_epsilon=B.build_epsilon(scn["drive"].get("epsilon")),
            )
            h.probe("sibling_solver")

        if sib and sib["when"] == "before":
            make_sibling()
        if scn.get("entry") == "function":
            # the documented convenience entry point tdgl.solve(): the solver is constructed by the
            # library's own wrapper from the user's arguments (its solve() call is deferred so that the
            # seams can be installed on the object the wrapper built)
            import tdgl.solver.solve as _solve_mod

            real_cls = _solve_mod.TDGLSolver
            made = []

            class _Deferred:
                def solve(self_d):
                    return None

            def factory(*a, **k):
                made.append(real_cls(*a, **k))
                return _Deferred()

            _solve_mod.TDGLSolver = factory
            try:
                tdgl.solve(device, options, applied_vector_potential=A_obj, terminal_currents=currents, disorder_epsilon=eps, **kw)
            finally:
                _solve_mod.TDGLSolver = real_cls
            if len(made) != 1:
                raise HarnessError(f"tdgl.solve constructed {len(made)} solvers")
            solver = made[0]
            h.probe("entry_function")
        else:
            solver = tdgl.TDGLSolver(
                device,
                options,
                applied_vector_potential=A_obj,
                terminal_currents=currents,
                disorder_epsilon=eps,
                **kw,
            )
        if sib and sib["when"] == "after":
            make_sibling()
        self.A_obj = A_obj
        if late and late["phase"] == "post":
            B.apply_option_updates(solver.options, late["updates"])
        return solver

    def run(self):
        quiet()
        scn = self.scn
        h = self.h
        env = scn.get("env", {})
        self.workdir = os.path.join(self.root, env.get("cwd", "work"))
        os.makedirs(self.workdir, exist_ok=True)
        # pre-existing files (fault kind "collide")
        for name, content in scn.get("observer", {}).get("preexisting", {}).items():
            p = os.path.join(self.workdir, name)
            os.makedirs(os.path.dirname(p), exist_ok=True)
            if content == "h5":
                import h5py

                with h5py.File(p, "w") as f:
                    f.attrs["marker"] = name
            else:
                with open(p, "wb") as f:
                    f.write(content.encode())
            os.utime(p, (1.6e9, 1.6e9))
        old_cwd = os.getcwd()
        os.chdir(self.workdir)
        threads = env.get("threads")
        import numba

        old_threads = numba.get_num_threads()
        if threads:
            numba.set_num_threads(min(threads, numba.config.NUMBA_NUM_THREADS))
        self._device = None
        self._device_error = None
        try:
            self._device = self._prepare_device()
        except (Discard, HarnessError):
            os.chdir(old_cwd)
            numba.set_num_threads(old_threads)
            raise
        except BaseException as e:  # an ill-posed device definition: reported where the solver is constructed
            self._device_error = e
        self._install_env()
        h.fs_before = listing(self.root)
        h.h5_open_before = h5_open_count()
        old_trace = sys.gettrace()
        try:
            try:
                solver = self.construct()
            except (Discard, HarnessError):
                raise
            except BaseException as e:
                h.construct_error = e
                h.outcome = "rejected:" + type(e).__name__
                h.exc = (type(e).__name__, str(e)[:200])
                h.exc_obj = e
                h.ev("outcome", h.outcome)
                return h
            h.solver = solver
            if self.psi_init_hook is not None:
                self.psi_init_hook(solver)
            self._install_solver_seams(solver)
            for f in self.faults:
                if f["kind"] in ("exc", "sigint", "enospc", "mem") and f["at"].get("point") == "line":
                    self._line_fault = f
            if self.trace_mode or self._line_fault is not None or self._line_guests or self._any_line_guests:
                sys.settrace(self._global_trace)
            seed_snap = None
            if self.seed_solution is not None:
                # the Solution handed over as a seed is the record of a finished run: the run it seeds must
                # not write into it (engine-level aliasing invariant, as for the arrays handed to an update)
                try:
                    td_ = self.seed_solution.tdgl_data
                    seed_snap = {n_: np.array(getattr(td_, n_), copy=True) for n_ in ("psi", "mu", "supercurrent", "normal_current", "induced_vector_potential") if getattr(td_, n_, None) is not None}
                except Exception:
                    seed_snap = None
            try:
                sol = solver.solve()
                if scn.get("solve_twice") and sol is not None:
                    # solver life cycle: the same TDGLSolver object is run again
                    h.probe("second_solve")
                    h.first_solution = sol
                    h.ev("second-solve")
                    # the recorded history is kept per solve: step labels, times and frame numbers
                    # start again, so history checks evaluate the run on the used solver (online
                    # invariants have already judged every step of the first one)
                    h.first = {"stages": h.stages, "frames": h.frames}
                    h.stages = {"T": [], "S": []}
                    h.frames = []
                    self.cur = None
                    self._call_checkers("on_new_solve", None)
                    sol = solver.solve()
                h.solution = sol
                h.outcome = "solution" if sol is not None else "none"
            except Discard:
                raise
            except HarnessError:
                raise
            except SimStepCap as e:
                h.outcome = "capped"
                h.exc = ("SimStepCap", str(e)[:200])
                h.exc_obj = e
            except BaseException as e:
                h.outcome = "raised:" + type(e).__name__
                h.exc = (type(e).__name__, str(e)[:200])
                h.exc_obj = e
            finally:
                sys.settrace(old_trace)
                if seed_snap is not None:
                    td_ = self.seed_solution.tdgl_data
                    for n_, v_ in seed_snap.items():
                        if not aeq(np.asarray(getattr(td_, n_)), v_):
                            self.alias_violations.append(("seed", -1, n_))
                            h.probe("seed_modified_in_place")
                            break
            h.ev("outcome", h.outcome, h.exc[0] if h.exc else None)
        finally:
            sys.settrace(old_trace)
            self._unpatch_all()
            numba.set_num_threads(old_threads)
            os.chdir(old_cwd)
            h.line_counts = dict(self._line_counts)
            h.fs_after = listing(self.root)
            h.h5_open_after = h5_open_count()
        return h

    def cleanup(self):
        if self.own_root:
            shutil.rmtree(self.root, ignore_errors=True)


def classify_discard(h):
    """Expected environment rejections that are outside every property."""
    if h.exc is None:
        return None
    name, msg = h.exc
    if "singular" in msg.lower():
        return "singular-factor"
    if "Malformed" in msg or "malformed" in msg:
        return "malformed-voronoi"
    return None


def run_scenario(scn, checkers=(), trace=None, root=None, mesh_from=None, psi_init_hook=None, seed_solution=None, options_from=None, options_as_is=None, device_object=None):
    sim = Sim(scn, checkers=checkers, trace=trace, root=root, mesh_from=mesh_from)
    sim.device_object = device_object
    sim.psi_init_hook = psi_init_hook
    sim.seed_solution = seed_solution
    sim.options_from = options_from
    sim.options_as_is = options_as_is
    h = sim.run()
    why = classify_discard(h)
    if why is not None:
        sim.cleanup()
        raise Discard(why)
    return sim, h
