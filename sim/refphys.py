"""Finite-volume reference physics, written from docs/background.rst (eqs. gradient,
divergence, laplacian, grad-psi, laplacian-psi, tdgl-num, poisson-num, z, w, quad-2,
quad-root, psi-sol) and the property texts -- not from the code.  Dense numpy on the raw
mesh arrays; small enough to review."""
import numpy as np


class RefMesh:
    def __init__(self, mesh):
        em = mesh.edge_mesh
        self.sites = np.array(mesh.sites, dtype=float)
        self.elements = np.array(mesh.elements)
        self.areas = np.array(mesh.areas, dtype=float)
        self.edges = np.array(em.edges)
        self.e_len = np.array(em.edge_lengths, dtype=float)
        self.s_len = np.array(em.dual_edge_lengths, dtype=float)
        self.n = len(self.sites)
        self.ne = len(self.edges)
        # e_ij = r_j - r_i, recomputed from the site pairs
        self.evec = self.sites[self.edges[:, 1]] - self.sites[self.edges[:, 0]]
        self.ehat = self.evec / np.linalg.norm(self.evec, axis=1)[:, None]
        self.centers = 0.5 * (self.sites[self.edges[:, 1]] + self.sites[self.edges[:, 0]])
        # boundary edges: those that belong to exactly one triangle
        count = {}
        for tri in self.elements:
            for a, b in ((tri[0], tri[1]), (tri[1], tri[2]), (tri[2], tri[0])):
                key = (min(a, b), max(a, b))
                count[key] = count.get(key, 0) + 1
        self.is_boundary_edge = np.array([count.get((min(a, b), max(a, b)), 0) == 1 for a, b in self.edges])
        self.boundary_edges = np.where(self.is_boundary_edge)[0]
        bs = np.zeros(self.n, dtype=bool)
        bs[self.edges[self.is_boundary_edge].ravel()] = True
        self.is_boundary_site = bs

    # ------------------------------------------------------------------ operators
    def link(self, A_edge):
        """U_ij = exp(-i A(r_ij) . e_ij) for edge (i, j) in stored orientation."""
        return np.exp(-1j * np.einsum("ij,ij->i", np.asarray(A_edge, dtype=float), self.evec))

    def cov_laplacian(self, A_edge, pinned=None):
        """Dense covariant Laplacian, eq. laplacian-psi; rows of pinned sites are identity rows."""
        U = self.link(A_edge)
        L = np.zeros((self.n, self.n), dtype=complex)
        w = self.s_len / self.e_len
        i, j = self.edges[:, 0], self.edges[:, 1]
        np.add.at(L, (i, j), w * U / self.areas[i])
        np.add.at(L, (j, i), w * np.conj(U) / self.areas[j])
        np.add.at(L, (i, i), -w / self.areas[i])
        np.add.at(L, (j, j), -w / self.areas[j])
        if pinned is not None and len(pinned):
            L[pinned, :] = 0
            L[pinned, pinned] = 1.0
        return L

    def cov_gradient(self, A_edge):
        U = self.link(A_edge)
        G = np.zeros((self.ne, self.n), dtype=complex)
        e = np.arange(self.ne)
        G[e, self.edges[:, 1]] = U / self.e_len
        G[e, self.edges[:, 0]] += -1.0 / self.e_len
        return G

    def supercurrent(self, psi, A_edge):
        """J_ij = Im[psi_i^* (U_ij psi_j - psi_i) / e_ij]"""
        U = self.link(A_edge)
        i, j = self.edges[:, 0], self.edges[:, 1]
        return np.imag(np.conj(psi[i]) * (U * psi[j] - psi[i]) / self.e_len)

    def net_outflow(self, J_edge):
        """sum_j J_ij s_ij for every cell (eq. divergence times a_i)."""
        out = np.zeros(self.n)
        f = np.asarray(J_edge, dtype=float) * self.s_len
        np.add.at(out, self.edges[:, 0], f)
        np.add.at(out, self.edges[:, 1], -f)
        return out

    def gradient_real(self, g):
        return (g[self.edges[:, 1]] - g[self.edges[:, 0]]) / self.e_len


# ----------------------------------------------------------------------- the psi update
def z_w(psi, abs_sq, mu, eps, gamma, u, dt, lap_psi):
    """z and w of eqs. z, w; lap_psi is the covariant Laplacian action on psi."""
    U = np.exp(-1j * mu * dt)
    z = 0.5 * gamma**2 * U * psi
    w = z * abs_sq + U * (psi + (dt / u) * np.sqrt(1 + gamma**2 * abs_sq) * ((eps - abs_sq) * psi + lap_psi))
    return z, w


def discriminant(z, w):
    c = z.real * w.real + z.imag * w.imag
    b = 2 * c + 1
    return b, b * b - 4 * np.abs(z) ** 2 * np.abs(w) ** 2


def discriminant_ext(z, w):
    """Discriminant in extended precision (for the refusal <-> solvability oracle)."""
    zr, zi = z.real.astype(np.longdouble), z.imag.astype(np.longdouble)
    wr, wi = w.real.astype(np.longdouble), w.imag.astype(np.longdouble)
    c = zr * wr + zi * wi
    b = 2 * c + 1
    z2 = zr * zr + zi * zi
    w2 = wr * wr + wi * wi
    d = b * b - 4 * z2 * w2
    scale = b * b + 4 * z2 * w2
    return b, d, scale


def plus_root(z, w):
    b, d = discriminant(z, w)
    with np.errstate(all="ignore"):
        s = 2 * np.abs(w) ** 2 / (b + np.sqrt(np.where(d >= 0, d, np.nan)))
    return s


# ------------------------------------------------------------------------- terminals
def terminal_shares(rm, device, xi):
    """For every terminal: {site: length of its share} where a cell's share of a terminal
    is half of each adjacent boundary edge whose midpoint lies in the terminal polygon.
    Own point-in-polygon test via shapely (tdgl uses matplotlib.path)."""
    from shapely.geometry import Point
    from shapely.geometry import Polygon as SPoly

    out = {}
    margin = np.inf
    for term in device.terminals:
        poly = SPoly(np.asarray(term.points))
        share = {}
        edges_in = []
        for e in rm.boundary_edges:
            p = Point(*(rm.centers[e] * xi))
            margin = min(margin, poly.exterior.distance(p))
            if poly.contains(p):
                edges_in.append(int(e))
                for s in rm.edges[e]:
                    share[int(s)] = share.get(int(s), 0.0) + 0.5 * rm.e_len[e]
        sites_in = []
        for s in np.where(rm.is_boundary_site)[0]:
            p = Point(*(rm.sites[s] * xi))
            margin = min(margin, poly.exterior.distance(p))
            if poly.contains(p):
                sites_in.append(int(s))
        out[term.name] = {"share": share, "edges": edges_in, "sites": sorted(sites_in), "length": float(sum(rm.e_len[e] for e in edges_in))}
    return out, margin


# ------------------------------------------------------------------------- screening
def induced_direct(J_site, areas, sites, points):
    """Direct double sum  A(p) = sum_j K_j a_j / |p - r_j|  (prefactor applied by caller)."""
    d = np.linalg.norm(points[:, None, :] - sites[None, :, :], axis=2)
    return np.einsum("pj,jk->pk", areas[None, :] / d, J_site)


def site_average(rm, q_edge):
    """The documented site value of an edge quantity: for every site the average over its
    edges of (q_ij * e_hat_ij), halved (tdgl.finite_volume.mesh.Mesh.get_quantity_on_site)."""
    vx = q_edge * rm.ehat[:, 0]
    vy = q_edge * rm.ehat[:, 1]
    sx = np.zeros(rm.n)
    sy = np.zeros(rm.n)
    cnt = np.zeros(rm.n)
    for col in (0, 1):
        np.add.at(sx, rm.edges[:, col], vx)
        np.add.at(sy, rm.edges[:, col], vy)
        np.add.at(cnt, rm.edges[:, col], 1)
    return np.stack([sx / cnt, sy / cnt], axis=1) / 2
