"""Batch driver: seeded search over scenarios, minimisation, replay, evidence.

One integer (VERIF_SEED) decides everything: run ``idx`` of a batch executes the scenario
``mod.gen(seed, idx, tier)``, a pure function.  Workers are spawn-ed processes (fork is
unsafe once numba's thread pool exists).
"""
import collections
import faulthandler
import importlib
import json
import multiprocessing as mp
import os
import subprocess
import sys
import time
from concurrent.futures import ProcessPoolExecutor, as_completed

from .common import HarnessError, digest_obj, jdump

VERIF = os.path.dirname(os.path.dirname(os.path.abspath(__file__)))
# evidence/ and replays/ land in /verif; TDGLSIM_OUT redirects them only when the machinery itself is
# being tested against seeded changes (tools/*_matrix.sh), so such runs never overwrite real evidence
OUT = os.environ.get("TDGLSIM_OUT") or VERIF
DEFAULT_SEEDS = {}
RUN_TIMEOUT_S = 900


def load(prop_id):
    return importlib.import_module(f"sim.props.{prop_id.lower()}")


def gen_scn(mod, seed, idx, tier):
    """The scenario of run ``idx``: the property's own generator, then the shared object life cycles
    (their own sub-stream of the same seed)."""
    from . import scen
    from .common import substream

    scn = mod.gen(seed, idx, tier)
    lc = getattr(mod, "LIFECYCLES", None)
    if lc is not None:
        scn = scen.add_lifecycles(substream(seed, idx, "lifecycles"), scn, **lc)
    return scn


# ------------------------------------------------------------------------------ workers
def _worker_init():
    os.environ.setdefault("NUMBA_NUM_THREADS", "16")
    from .common import quiet

    quiet()
    import numba
    import tdgl  # noqa: F401

    numba.set_num_threads(1)


def _run_one(mod, scn):
    from .props import base

    faulthandler.dump_traceback_later(RUN_TIMEOUT_S, exit=True)
    try:
        return base.safe_run(mod.run, scn)
    finally:
        faulthandler.cancel_dump_traceback_later()


_SEQ = [0]


def work_chunk(prop_id, seed, tier, indices, want_scn):
    mod = load(prop_id)
    out = []
    for idx in indices:
        _SEQ[0] += 1
        scn = gen_scn(mod, seed, idx, tier)
        t0 = time.perf_counter()
        r = _run_one(mod, scn)
        r["idx"] = idx
        r["wall"] = time.perf_counter() - t0
        r["pid"] = os.getpid()
        r["seq"] = _SEQ[0]
        if idx in want_scn or r["violations"]:
            r["scenario"] = scn
        out.append(r)
    return out


def work_scenario(prop_id, scn):
    mod = load(prop_id)
    return _run_one(mod, scn)


# ------------------------------------------------------------------------ known findings
def load_findings():
    p = os.path.join(VERIF, "known_findings.json")
    if not os.path.exists(p):
        return []
    with open(p) as f:
        return json.load(f)["findings"]


def _match_value(pat, val):
    if isinstance(pat, dict):
        for op, x in pat.items():
            if op == "$lt" and not (val is not None and val < x):
                return False
            if op == "$gt" and not (val is not None and val > x):
                return False
            if op == "$in" and val not in x:
                return False
            if op == "$ne" and val == x:
                return False
        return True
    return pat == val


def match_finding(findings, prop_id, v):
    for f in findings:
        if f.get("status") != "known" or f["property"] != prop_id or f["rule"] != v["rule"]:
            continue
        if all(_match_value(pat, v["where"].get(k)) for k, pat in f.get("where", {}).items()):
            return f
    return None


# ---------------------------------------------------------------------------- minimiser
def minimise(pool, prop_id, mod, scn, rule, findings, max_exec=150):
    """Greedy passes while the same violation class (property, rule) persists and the
    violation is still not a listed known finding."""
    execs = 0
    cur = scn

    def still_fails(res):
        for v in res["violations"]:
            if v["rule"] == rule and match_finding(findings, prop_id, v) is None:
                return True
        return False

    improved = True
    while improved and execs < max_exec:
        improved = False
        cands = []
        seen = {digest_obj(cur)}
        for c in mod.shrink(cur):
            d = digest_obj(c)
            if d not in seen:
                seen.add(d)
                cands.append(c)
            if len(cands) >= 24:
                break
        if not cands:
            break
        futs = [pool.submit(work_scenario, prop_id, c) for c in cands]
        execs += len(cands)
        for c, fu in zip(cands, futs):
            try:
                res = fu.result(timeout=RUN_TIMEOUT_S * 2)
            except Exception:
                continue
            if res["discard"] is None and still_fails(res):
                cur = c
                improved = True
                break
    return cur, execs


# -------------------------------------------------------------------------------- batch
def fresh_env(hashseed="0"):
    env = dict(os.environ)
    env["PYTHONPATH"] = os.environ.get("TDGLSIM_REPO", "/repo") + ":" + VERIF
    env["PYTHONHASHSEED"] = hashseed
    env["PIP_NO_INDEX"] = "1"
    env["OPENBLAS_NUM_THREADS"] = "1"
    env["MKL_NUM_THREADS"] = "1"
    return env


def fingerprints_fresh(prop_id, seed, tier, indices, hashseed):
    cmd = [sys.executable, os.path.join(VERIF, "run_check.py"), prop_id, "--tier", tier, "--seed", str(seed), "--fingerprints", ",".join(map(str, indices))]
    p = subprocess.run(cmd, env=fresh_env(hashseed), capture_output=True, text=True, timeout=900)
    if p.returncode != 0:
        raise HarnessError(f"fingerprint subprocess failed: {p.stderr[-2000:]}")
    line = [l for l in p.stdout.splitlines() if l.startswith("FINGERPRINTS ")][-1]
    return {int(k): v for k, v in json.loads(line[len("FINGERPRINTS "):]).items()}


def run_batch(prop_id, tier, seed, runs=None, workers=None, max_wall=None, selftest=True):
    mod = load(prop_id)
    t_start = time.time()
    budget = dict(mod.BUDGET[tier])
    n_runs = runs or budget["runs"]
    max_wall = max_wall or budget.get("max_wall", 600 if tier == "quick" else 5400)  # ends gracefully (evidence written) before the command timeout
    workers = workers or min(16, os.cpu_count() or 4)
    chunk = budget.get("chunk", 20)
    findings = load_findings()
    want_scn = set(range(4))
    results = []
    harness_errors = []
    ctx = mp.get_context("spawn")
    pool = ProcessPoolExecutor(max_workers=workers, mp_context=ctx, initializer=_worker_init)
    new_violations = []  # (result, violation)
    known_hits = collections.Counter()
    known_text = {}
    try:
        idx_iter = iter(range(n_runs))
        pending = set()

        def submit_more():
            while len(pending) < workers * 2:
                block = []
                for i in idx_iter:
                    block.append(i)
                    if len(block) >= chunk:
                        break
                if not block:
                    return
                pending.add(pool.submit(work_chunk, prop_id, seed, tier, block, want_scn))

        submit_more()
        stop = False
        while pending:
            done = next(as_completed(pending))
            pending.discard(done)
            try:
                res = done.result()
            except HarnessError as e:
                harness_errors.append(str(e))
                stop = True
                res = []
            except Exception as e:
                harness_errors.append(f"worker failure: {type(e).__name__}: {e}")
                stop = True
                res = []
            for r in res:
                results.append(r)
                for v in r["violations"]:
                    f = match_finding(findings, prop_id, v)
                    if f is not None:
                        known_hits[f["id"]] += 1
                        known_text[f["id"]] = f["text"]
                    else:
                        new_violations.append((r, v))
            if time.time() - t_start > max_wall:
                stop = True
            distinct_new = {v["rule"] for _, v in new_violations}
            if len(distinct_new) >= 5 or len(new_violations) > 200:
                stop = True
            if not stop:
                submit_more()
            else:
                for p in pending:
                    p.cancel()
                pending = {p for p in pending if not p.cancelled()}
        results.sort(key=lambda r: r["idx"])

        # ------------------------------------------------------ determinism self-test
        st = {"pairs": 0, "mismatches": 0}
        if selftest and not harness_errors and results:
            sample = [r["idx"] for r in results if r["discard"] is None][: budget.get("selftest", 6)]
            if sample:
                try:
                    fresh = fingerprints_fresh(prop_id, seed, tier, sample, hashseed="4242")
                    byidx = {r["idx"]: r for r in results}
                    for i in sample:
                        st["pairs"] += 1
                        if fresh.get(i) != byidx[i]["fingerprint"]:
                            st["mismatches"] += 1
                            st.setdefault("mismatching_run_indices", []).append(i)
                    if st["mismatches"]:
                        harness_errors.append(f"determinism self-test: {st['mismatches']} of {st['pairs']} fingerprints differ in a fresh interpreter (run indices {st['mismatching_run_indices']})")
                except Exception as e:
                    harness_errors.append(f"determinism self-test failed to run: {e}")

        # ------------------------------------------------------- minimise and report
        reports = []
        by_rule = collections.OrderedDict()
        for r, v in new_violations:
            by_rule.setdefault(v["rule"], (r, v))
        for rule, (r, v) in list(by_rule.items())[:5]:
            scn = r.get("scenario") or gen_scn(mod, seed, r["idx"], tier)
            try:
                small, execs = minimise(pool, prop_id, mod, scn, rule, findings)
            except Exception as e:
                small, execs = scn, 0
                harness_errors.append(f"minimiser failed: {e}")
            final = pool.submit(work_scenario, prop_id, small).result(timeout=RUN_TIMEOUT_S * 2)
            vv = [x for x in final["violations"] if x["rule"] == rule]
            if not vv:
                small, final, vv = scn, r, [v]
            rep = {
                "property": prop_id,
                "rule": rule,
                "message": vv[0]["msg"],
                "where": vv[0]["where"],
                "seed": seed,
                "tier": tier,
                "run_index": r["idx"],
                "scenario": small,
                "original_scenario": scn,
                "faults_fired": final["stats"].get("faults"),
                "fingerprint": final["fingerprint"],
                "minimiser_executions": execs,
            }
            d = os.path.join(OUT, "replays", prop_id)
            os.makedirs(d, exist_ok=True)
            path = os.path.join(d, f"{seed}-{r['idx']}-{rule}.json")
            with open(path, "w") as fh:
                fh.write(json.dumps(rep, indent=1, sort_keys=True, default=str))
            # replay in a fresh process must reproduce
            cmd = [sys.executable, os.path.join(VERIF, "run_check.py"), prop_id, "--replay", path]
            p = subprocess.run(cmd, env=fresh_env("0"), capture_output=True, text=True, timeout=900)
            rep["replay_reproduced"] = p.returncode == 1 and f"VIOLATION property={prop_id}" in p.stdout
            if not rep["replay_reproduced"] and "pid" in r:
                # the violation may depend on what the same worker process executed before (hidden
                # process-global state in the library): replay the worker's history up to this run
                hist = sorted([x for x in results if x.get("pid") == r["pid"] and x.get("seq", 0) < r["seq"]], key=lambda x: x["seq"])
                rep["history"] = [gen_scn(mod, seed, x["idx"], tier) for x in hist[-60:]] + [scn]
                rep["history_indices"] = [x["idx"] for x in hist[-60:]] + [r["idx"]]
                rep["scenario"] = scn
                with open(path, "w") as fh:
                    fh.write(json.dumps(rep, indent=1, sort_keys=True, default=str))
                p = subprocess.run(cmd, env=fresh_env("0"), capture_output=True, text=True, timeout=3600)
                rep["replay_reproduced"] = p.returncode == 1 and f"VIOLATION property={prop_id}" in p.stdout
                if rep["replay_reproduced"]:
                    rep["note"] = f"reproduces only after the {len(rep['history']) - 1} scenarios the same worker process executed before: the library keeps state across runs"
                    rep["message"] += " [depends on earlier runs in the same process]"
            if not rep["replay_reproduced"] and getattr(mod, "NONREPRODUCIBLE_IS_VIOLATION", False):
                # for the reproducibility property itself a violation that does not replay IS the finding
                rep["note"] = "the replay did not reproduce: the executions are not a function of their inputs"
            elif not rep["replay_reproduced"]:
                harness_errors.append(f"replay of {path} did not reproduce (exit {p.returncode}): {p.stdout[-300:]} {p.stderr[-300:]}")
            reports.append((path, rep))
    finally:
        pool.shutdown(wait=False, cancel_futures=True)

    # coverage guard: a check whose well-posed scenarios are rejected at construction is not looking
    rej = sum(1 for r in results if r["discard"] and str(r["discard"]).startswith("rejected:"))
    if results and rej > max(3, 0.03 * len(results)):
        reasons = collections.Counter(str(r["discard"])[:70] for r in results if r["discard"] and str(r["discard"]).startswith("rejected:"))
        harness_errors.append(f"coverage gap: {rej} of {len(results)} well-posed scenarios were rejected at construction: {reasons.most_common(2)}")
    wall = time.time() - t_start
    ev = write_evidence(mod, prop_id, tier, seed, results, reports, known_hits, st, wall, harness_errors, workers)
    for fid, n in known_hits.items():
        print(f"KNOWN-FINDING: property={prop_id} {known_text[fid]} [{fid}; hit {n}x]")
    for path, rep in reports:
        print(f"VIOLATION property={prop_id} replay={path}")
        print(f"  rule={rep['rule']} seed={seed} idx={rep['run_index']}: {rep['message']}")
    for e in harness_errors:
        print(f"HARNESS-ERROR property={prop_id} {e}")
    print(
        f"{prop_id} {tier}: {ev['coverage']['evaluations']} runs, {ev['coverage']['distinct_nontrivial']} distinct non-trivial, "
        f"{len(reports)} violation classes, {sum(known_hits.values())} known-finding hits, {wall:.1f}s"
    )
    # a violation that was minimised and reproduced by its replay file in a fresh process stands on its own,
    # whatever else went wrong in the batch (e.g. a library change that keeps state across runs trips the
    # determinism self-test AND produces history-dependent violations)
    if any(rep.get("replay_reproduced") or rep.get("note") for _, rep in reports):
        return 1
    if harness_errors:
        return 2
    if reports:
        return 1
    return 0


def write_evidence(mod, prop_id, tier, seed, results, reports, known_hits, st, wall, harness_errors, workers):
    ok = [r for r in results if r["discard"] is None]
    nontriv = {r["digest"] for r in ok if r["nontrivial"]}
    sigs = collections.Counter(jdump(r["sig"]) for r in ok)
    faults = collections.Counter()
    probes = collections.Counter()
    discards = collections.Counter(r["discard"] for r in results if r["discard"])
    outcomes = collections.Counter(r["outcome"] for r in results)
    crashloc = set()
    steps = 0
    sim_time = 0.0
    grid = collections.Counter()
    for r in ok:
        s = r["stats"]
        steps += s["steps"]
        sim_time += s["sim_time"]
        for f in s["faults"]:
            faults[f] += 1
        for k, v in s["probes"].items():
            if k.startswith("crashloc:"):
                crashloc.add(k[9:])
            else:
                probes[k] += v
        if s.get("grid") is not None:
            grid[tuple(s["grid"])] += 1
    samples = []
    for r in results:
        if "scenario" in r and len(samples) < 4:
            samples.append({"run_index": r["idx"], "scenario": r["scenario"], "outcome": r["outcome"], "faults_fired": r["stats"]["faults"], "violations": [v["rule"] for v in r["violations"]], "fingerprint": r["fingerprint"]})
    cov = {
        "evaluations": len(results),
        "distinct_nontrivial": len(nontriv),
        "rule": mod.RULE,
        "samples": samples,
        "exhaustive": False,
        "runs_per_hour": int(len(results) / max(wall, 1e-9) * 3600),
        "seeds": {"root_seed": seed, "run_index_range": [0, max([r["idx"] for r in results], default=-1)]},
        "simulated_steps": steps,
        "simulated_time_tau": sim_time,
        "faults_fired": dict(faults),
        "probes": dict(probes),
        "distinct_histories": len(sigs),
        "history_signatures_top": sigs.most_common(8),
        "crash_locations": sorted(crashloc),
        "outcomes": dict(outcomes),
        "discarded": dict(discards),
        "components": getattr(mod, "COMPONENTS", {}),
        "determinism_selftest": st,
        "workers": workers,
        "known_findings_hit": dict(known_hits),
        "violation_replays": [p for p, _ in reports],
        "harness_errors": harness_errors,
    }
    if grid:
        cov["grid_coverage"] = {"cells_hit": len(grid), "min_hits": min(grid.values()), "cells": sorted([list(k) + [v] for k, v in grid.items()])[:400]}
    extra = getattr(mod, "evidence_extra", None)
    if extra:
        cov.update(extra(results))
    ev = {
        "property_id": prop_id,
        "tier": tier,
        "seed": int(seed),
        "level": mod.LEVEL,
        "coverage": cov,
        "assumptions": getattr(mod, "ASSUMPTIONS", []),
        "wall_s": round(wall, 2),
        "violations": len(reports),
    }
    d = os.path.join(OUT, "evidence")
    os.makedirs(d, exist_ok=True)
    with open(os.path.join(d, f"{prop_id}.json"), "w") as f:
        f.write(json.dumps(ev, indent=1, sort_keys=True, default=str))
    return ev


def replay(prop_id, path):
    mod = load(prop_id)
    with open(path) as f:
        rep = json.load(f)
    _worker_init()
    for earlier in rep.get("history", [])[:-1]:
        _run_one(mod, earlier)
    res = _run_one(mod, rep["history"][-1] if rep.get("history") else rep["scenario"])
    findings = load_findings()
    hit = [v for v in res["violations"] if v["rule"] == rep["rule"]]
    known = [match_finding(findings, prop_id, v) for v in hit]
    if hit and all(k is not None for k in known):
        print(f"KNOWN-FINDING: property={prop_id} {known[0]['text']} [{known[0]['id']}]")
        return 0
    if hit:
        same_fp = res["fingerprint"] == rep.get("fingerprint")
        print(f"VIOLATION property={prop_id} replay={path}")
        print(f"  rule={rep['rule']}: {hit[0]['msg']}")
        print(f"  fingerprint {'identical' if same_fp else 'DIFFERS'}: {res['fingerprint']}")
        return 1
    print(f"replay of {path}: rule {rep['rule']} not reproduced; violations now: {[v['rule'] for v in res['violations']]}")
    return 0


def fingerprints(prop_id, seed, tier, indices):
    mod = load(prop_id)
    _worker_init()
    out = {}
    for i in indices:
        r = _run_one(mod, gen_scn(mod, seed, i, tier))
        out[i] = r["fingerprint"]
    print("FINGERPRINTS " + json.dumps(out))
    return 0
