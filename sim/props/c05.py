"""C05 - recorded frames, times and per-step records are consistent.

Workload: recording-loop histories over (k, N, dt sequence, thermalisation, probes,
screening flag, output destination); Engine B (stub physics, breadth) and Engine A (real
update).  Oracle: the recorder model (sim/recorder.py) fed with the dt sequence observed
at the update seam.
"""
import copy
import os

import numpy as np

from .. import recorder, scen
from ..common import Violation, substream
from ..engine import run_scenario
from . import base

ID = "C05"
LEVEL = "exploration"
RULE = (
    "the first 2496 runs of every batch ENUMERATE the bounded grid of the quantifier exhaustively (N 0..12) x (k 1..N+2) x thermalisation "
    "on/off x (0/2/3 probes) x screening on/off x (fixed/scripted dt sequence); the remaining runs are seeded samples: "
    "histories = (save interval k, run length N, dt sequence incl. retries/adaptive, thermalisation, "
    "probes, screening, output destination) drawn by a seeded generator; a history is non-trivial when "
    "the run recorded at least two frames or hit a boundary case (k=1, N=0, N%k in {0,k-1}, thermalisation); "
    "distinct = distinct scenario digests"
)
LIFECYCLES = {}  # shared object life cycles (scen.add_lifecycles) with their default rates
BUDGET = {"quick": {"runs": 6000}, "thorough": {"runs": 300000}}
COMPONENTS = {
    "real": ["tdgl.solver.runner.Runner", "DataHandler", "RunningState", "h5py/HDF5 files", "tdgl.Solution / DynamicsData loading", "TDGLSolver.solve setup/teardown", "TDGLSolver.update (Engine A runs)"],
    "stub": ["physics update (Engine B runs: scripted dt, values encode the update count)", "wall clock", "monitor subprocess", "temp-dir factory (recorded, real dirs)"],
}


# the bounded grid of the property's quantifier, enumerated exhaustively by the first GRID_SIZE runs
GRID = [
    (N, k, therm, probes, screen, mode)
    for N in range(0, 13)
    for k in range(1, N + 3)
    for therm in (False, True)
    for probes in (0, 2, 3)
    for screen in (False, True)
    for mode in ("fixed", "scripted")
]
GRID_SIZE = len(GRID)  # 2496


# A run that is cancelled also has to hold exactly the frames and per-step records of the steps that were
# completed, each once: one history in twelve is a cancellation in the update of a bounded run (every
# step 0..N-1 of every (k, N) cell of C15's enumerated family: steps that are multiples of the save
# interval included), executed and judged by C15's crash-point machinery; of its verdicts the ones about
# frames, times and records count here. A third of these histories are cancelled inside the frame writer
# instead (C15's sampled line-level crash points).
CANCEL_RULES = ("frame-duplicate", "frame-labels", "frames-before-stop", "frame-content", "frame-time", "records-count", "records-dt", "records-mu", "records-theta", "records-screening_iterations", "records-frame0", "records-missing", "solution-times", "dynamics-dt", "dynamics-time", "dynamics-mu", "dynamics-theta", "dynamics-screening_iterations", "partial-frame")


def _cancel_cells():
    from . import c15

    return [j for j, c in enumerate(c15.GRID) if c[4] == "sigint" and c[2].startswith("update")]


def gen(seed, idx, tier):
    if idx >= GRID_SIZE and idx % 12 == 5:
        from . import c15

        cells = _cancel_cells()
        n_ = (idx - GRID_SIZE) // 12
        if n_ % 3 == 2:
            # ... or inside the frame writer: the next of C15's sampled crash points that is a Ctrl-C at a
            # line of the writer (a frame that was being written when the run was cancelled is no frame)
            j0 = c15.GRID_SIZE + 40 * n_
            for j in range(j0, j0 + 400):
                cand = c15.gen(seed, j, tier)
                fl = cand.get("faults", [])
                if len(fl) == 1 and fl[0]["kind"] == "sigint" and fl[0]["at"].get("point") == "line" and c15.region_of(fl[0]["at"]) == "writer" and not cand["options"].get("pause_on_interrupt"):
                    cand["c05_cancel"] = j
                    return cand
        j = cells[n_ % len(cells)]
        scn = c15.gen(seed, j, tier)
        scn["c05_cancel"] = j
        return scn
    scn = _gen(seed, idx, tier)
    # a third of the histories: the loaded solution is also looked at through other saved steps
    rv = substream(seed, idx, "c05-views")
    scn["views"] = rv.random() < 0.35
    if scn["views"] and rv.random() < 0.4:
        k = scn["options"]["save_every"]
        scn["path_reuse"] = {"save_every": rv.choice([x for x in (1, 2, 3, 5) if x != k])}
    return scn


def _gen(seed, idx, tier):
    rnd = substream(seed, idx, "c05")
    cell = GRID[idx] if idx < GRID_SIZE else None
    engine_a = cell is None and rnd.random() < 0.15
    if engine_a:
        return gen_engine_a(rnd)
    longer = rnd.random() < 0.06
    N = rnd.randint(13, 40) if longer else rnd.randint(0, 12)
    k = rnd.randint(1, N + 2)
    mode = rnd.choice(["fixed", "fixed", "scripted", "scripted", "edge"])
    if cell is not None:
        N, k, _therm, _probes, _screen, mode = cell
    if mode == "fixed":
        d = rnd.choice([0.01, 0.1, 0.25, 0.3, 1e-3, 0.125])
        dts = [d] * (N + 3)
    elif mode == "scripted":
        base_dt = rnd.choice([0.01, 0.05, 0.2])
        dts = []
        for _ in range(N + 3):
            dts.append(scen.r3(base_dt * rnd.choice([1.0, 1.0, 0.25, 0.0625, 1.7, 2.5, 0.333])))
    else:
        d = rnd.choice([0.01, 0.1, 0.3, 0.7])
        dts = [d] * (N + 3)
    tN = scen.seq_sum(dts, N)
    if N == 0:
        solve_time = 0.0
        end_mode = "zero"
    elif mode == "edge":
        # the mathematically exact product, which float accumulation may undershoot
        solve_time = float(f"{N * dts[0]:.12g}")
        end_mode = "decimal"
    else:
        end_mode = rnd.choice(["exact", "overshoot", "overshoot"])
        if end_mode == "exact":
            solve_time = tN
        else:
            solve_time = scen.seq_sum(dts, N - 1) + dts[N - 1] * rnd.choice([0.5, 0.999, 0.01])
    therm = rnd.random() < 0.3
    if cell is not None:
        therm = cell[2]
    dts_T = []
    skip_time = 0.0
    if therm:
        NT = rnd.randint(1, 6)
        dts_T = [scen.r3(rnd.choice([0.02, 0.05, 0.3]))] * (NT + 2)
        skip_time = scen.seq_sum(dts_T, NT - 1) + dts_T[0] * 0.5
    n_probes = rnd.choice([0, 2, 3])
    if cell is not None:
        n_probes = cell[3]
    dev = scen.gen_device(rnd, size="tiny", n_terminals=0, n_probes=n_probes, n_holes=0, length_units="um", gamma=1.0)
    dev["mesh"]["smooth"] = 0
    if cell is not None:
        # one fixed, known-good geometry for the enumerated grid (a discarded cell would be a hole in it)
        dev["film"] = {"kind": "box", "w": 4.13, "h": 3.07, "npts": 14}
        dev["layer"] = {"xi": 0.5, "lam": 2.0, "d": 0.1, "u": 5.79, "gamma": 1.0, "z0": 0.0}
        dev["probes"] = [[-1.2, 0.8], [1.2, 0.8], [0.0, -0.8]][:n_probes] if n_probes else None
    out = None
    if rnd.random() < 0.6:
        out = {"path": rnd.choice(["out.h5", "sub/dir/out.h5", "a.b/out.v2.h5"]), "absolute": rnd.random() < 0.8}
    opts = scen.base_options(
        solve_time=solve_time,
        skip_time=skip_time,
        dt_init=dts[0],
        dt_max=max(dts + dts_T) * 2,
        adaptive=rnd.random() < 0.5,
        save_every=k,
        include_screening=(rnd.random() < 0.3) if cell is None else cell[4],
    )
    dyn_field = rnd.random() < 0.25
    field = {"kind": "ramp", "B": 0.1, "tmin": 0.0, "tmax": 10.0} if dyn_field else {"kind": "zero"}
    eps = {"kind": "timedep", "amp": 0.1, "omega": 1.0, "base": 0.8} if rnd.random() < 0.15 else None
    return {
        "physics": "stub",
        "device": dev,
        "options": opts,
        "drive": {"field": field, "currents": None, "epsilon": eps},
        "stub": {"dts_S": dts, "dts_T": dts_T, "default_dt": dts[-1]},
        "observer": {"output": out},
        "env": {},
        "faults": [],
        "meta": {"N": N, "k": k, "mode": mode, "end": end_mode, "therm": therm, "grid_cell": idx if cell is not None else None},
    }


def gen_engine_a(rnd):
    n_probes = rnd.choice([0, 2, 3])
    n_term = rnd.choice([0, 2])
    dev = scen.gen_device(rnd, size="small", n_terminals=n_term, n_probes=n_probes, length_units="um")
    adaptive = rnd.random() < 0.6
    dt_init = rnd.choice([1e-3, 0.01, 0.05])
    steps = rnd.randint(1, 25)
    opts = scen.base_options(
        solve_time=scen.r3(dt_init * steps * rnd.choice([1.0, 0.97])),
        skip_time=scen.r3(dt_init * rnd.randint(1, 5)) if rnd.random() < 0.3 else 0.0,
        dt_init=dt_init,
        dt_max=dt_init * rnd.choice([1, 4, 20]),
        adaptive=adaptive,
        adaptive_window=rnd.choice([1, 2, 5]),
        save_every=rnd.randint(1, steps + 2),
        include_screening=rnd.random() < 0.15,
    )
    cur = None
    if n_term:
        a = scen.gen_amplitude(rnd, 1.0)
        cur = {"kind": "const", "I": {"source": a, "drain": -a}}
    field = rnd.choice([{"kind": "zero"}, {"kind": "const", "B": 0.2}, {"kind": "ramp", "B": 0.3, "tmin": 0.0, "tmax": opts["solve_time"]}])
    out = {"path": "out.h5", "absolute": True} if rnd.random() < 0.6 else None
    faults = []
    if adaptive and rnd.random() < 0.6:
        # forced retries: the used time step differs from the proposed one
        for _ in range(rnd.randint(1, 3)):
            faults.append({"kind": "refuse", "at": {"stage": rnd.choice(["S", "S", "T"]), "step": rnd.randint(0, steps), "attempts": list(range(rnd.choice([1, 2]))), "iter": 0}})
    return {
        "physics": "real",
        "device": dev,
        "options": opts,
        "drive": {"field": field, "currents": cur, "epsilon": None},
        "observer": {"output": out},
        "env": {},
        "faults": faults,
        "meta": {"k": opts["save_every"], "mode": "real"},
    }


def oracle(scn, sim, h):
    V = []
    if h.outcome.startswith("rejected"):
        from ..common import Discard

        raise Discard(f"rejected:{h.exc[0]}:{h.exc[1][:40]}")
    k = scn["options"]["save_every"]
    stub = scn.get("physics") == "stub"
    if h.outcome.startswith("raised"):
        if base.expected_library_error(h):
            return V, "lib-error", None
        V.append(
            Violation(
                "solve-raised",
                f"solve() raised {h.exc[0]}: {h.exc[1][:120]} for a legal recording configuration",
                k=k,
                exc=h.exc[0],
                n_updates=len(h.stages["S"]),
            )
        )
        # what was written before is still checked below against the model
    h.expected_rows = recorder.expected_rows(h, h.solver, stub=stub)
    frames = [fr for fr in h.frames if fr["completed"]]
    if h.outcome == "capped":
        # the simulator ended the run (step budget): what was recorded so far is still checked
        last = max([fr["step"] for fr in frames], default=0)
        Vf, final, t_model = recorder.check_frames(h, frames, k, scn["options"]["solve_time"], stopped_at=last, source="captured")
        # ... and the stop rule still applies: no update may be started at a time >= solve_time
        late = [u for u in h.stages["S"] if u["time"] >= scn["options"]["solve_time"]]
        if late:
            Vf.append(Violation("stop-late", f"update {late[0]['step']} was started at t={late[0]['time']!r} >= solve_time={scn['options']['solve_time']!r}: the run did not stop at the first step whose time reaches the solve time", step=late[0]["step"]))
        return [v for v in V + Vf if v["rule"] != "frame-labels"], "capped", None
    Vf, final, t_model = recorder.check_frames(h, frames, k, scn["options"]["solve_time"], source="captured")
    V += Vf
    late = [u for u in h.stages["S"] if u["time"] >= scn["options"]["solve_time"]]
    if late:
        V.append(Violation("stop-late", f"update {late[0]['step']} was started at t={late[0]['time']!r} >= solve_time={scn['options']['solve_time']!r}", step=late[0]["step"]))
    lateT = [u for u in h.stages["T"] if u["time"] >= scn["options"]["skip_time"]]
    if lateT:
        V.append(Violation("stop-late", f"thermalisation update {lateT[0]['step']} was started at t={lateT[0]['time']!r} >= skip_time={scn['options']['skip_time']!r}", step=lateT[0]["step"], stage="T"))
    # the file, re-opened with plain h5py, must hold what the writer was handed
    if h.out_path and os.path.exists(h.out_path):
        try:
            ffr, fixed = recorder.read_frames(h.out_path)
        except Exception as e:
            V.append(Violation("file-unreadable", f"output file cannot be read back: {type(e).__name__}: {str(e)[:100]}"))
            ffr = None
        if ffr is not None:
            Vfile, _, _ = recorder.check_frames(h, ffr, k, scn["options"]["solve_time"], source="file")
            have = {v["rule"] for v in V}
            V += [v for v in Vfile if v["rule"] not in have]
    if h.solution is not None:
        V += recorder.check_solution(h, h.solution, frames, final, t_model)
        if scn.get("views") and not V and getattr(h.solution, "path", None) and os.path.exists(h.solution.path):
            # the same questions asked while the solution looks at another saved step
            V += recorder.check_solution_views(h, h.solution, frames, final, t_model, path=getattr(h.solution, "path", None))
    elif not h.outcome.startswith("raised"):
        V.append(Violation("no-solution", "solve() returned None for an uncancelled run"))
    return V, "ok", final


def run(scn):
    if scn.get("c05_cancel") is not None:
        from . import c15

        res = c15.run(scn)
        res["violations"] = [v for v in res["violations"] if v["rule"] in CANCEL_RULES]
        res["sig"] = ("cancelled",) + tuple(res["sig"] if isinstance(res["sig"], (tuple, list)) else (res["sig"],))
        return res
    reuse_root = None
    if scn.get("path_reuse") and (scn.get("observer", {}).get("output") or {}).get("absolute", False) and not scn.get("observer", {}).get("preexisting"):
        # the output path has a history inside this process: an earlier, different run (other save
        # interval) was written to the same path, loaded, and deleted before this run
        import shutil
        import tempfile

        import tdgl

        reuse_root = tempfile.mkdtemp(prefix="tdglsim-")
        s0 = copy.deepcopy(scn)
        s0.pop("path_reuse")
        s0["views"] = False
        s0["options"]["save_every"] = scn["path_reuse"]["save_every"]
        s0["faults"] = []
        sim0, h0 = run_scenario(s0, root=reuse_root)
        try:
            if h0.outcome == "solution" and h0.out_path and os.path.exists(h0.out_path):
                earlier = tdgl.Solution.from_hdf5(h0.out_path)
                _ = earlier.times
                os.remove(h0.out_path)
        finally:
            sim0.cleanup()
    sim, h = run_scenario(scn, root=reuse_root)
    try:
        V, status, final = oracle(scn, sim, h)
        k = scn["options"]["save_every"]
        nfr = len(h.frames)
        N = final if final is not None else -1
        bucket = (min(k, 14), min(N, 14) if N >= 0 else -1)
        nontrivial = status == "ok" and (nfr >= 2 or k == 1 or N == 0 or bool(scn["options"]["skip_time"]))
        sig = (
            scn.get("physics"),
            h.outcome,
            k if k < 4 else "k>=4",
            (N % k == 0) if N >= 0 else None,
            bool(scn["options"]["skip_time"]),
            scn["device"]["probes"] is not None and len(scn["device"]["probes"]),
            scn["options"]["include_screening"],
            scn["observer"]["output"] is None,
            scn.get("meta", {}).get("mode"),
            scn.get("meta", {}).get("end"),
        )
        res = base.summarize(scn, h, V, nontrivial, sig, extra={"grid": bucket if scn.get("physics") == "stub" else None, "frames": nfr})
        res["grid_cell"] = scn.get("meta", {}).get("grid_cell")
        return res
    finally:
        sim.cleanup()
        if reuse_root is not None:
            import shutil

            shutil.rmtree(reuse_root, ignore_errors=True)


def shrink(scn):
    if scn.get("c05_cancel") is not None:
        from . import c15

        yield from c15.shrink(scn)
        return
    yield from base.common_shrinks(scn)
    o = scn["options"]
    if scn.get("physics") == "stub":
        st = scn["stub"]
        # fewer steps: re-target the run length
        dts = st["dts_S"]
        for N2 in (0, 1, 2, 3):
            if N2 + 1 < len(dts):
                s = copy.deepcopy(scn)
                s["options"]["solve_time"] = scen.seq_sum(dts, N2)
                yield s
        if len(set(dts)) > 1:
            s = copy.deepcopy(scn)
            s["stub"]["dts_S"] = [dts[0]] * len(dts)
            yield s
        for k2 in (1, 2, 3):
            if o["save_every"] > k2:
                yield base.with_path(scn, ["options", "save_every"], k2)
        if scn["drive"]["field"]["kind"] != "zero":
            yield base.with_path(scn, ["drive", "field"], {"kind": "zero"})
    else:
        for k2 in (1, 2, 3):
            if o["save_every"] > k2:
                yield base.with_path(scn, ["options", "save_every"], k2)


def evidence_extra(results):
    cells = {}
    for r in results:
        g = r.get("grid_cell")
        if g is not None:
            cells[g] = r["discard"] is None and r["outcome"] in ("solution",)
    done = sum(1 for v in cells.values() if v)
    return {"enumerated_grid": {"cells": GRID_SIZE, "executed_and_checked": done, "complete": done == GRID_SIZE, "dimensions": "N 0..12 x k 1..N+2 x thermalisation x probes {0,2,3} x screening x dt {fixed, scripted}"}}
