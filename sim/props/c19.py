"""C19 - ill-posed problems are rejected before anything is written.

Each run takes a well-posed scenario and applies one defect from the enumerated classes
with a magnitude from gross to one part in 1e6.  Oracle on the event log: an exception is
raised, NO file-system event of any kind precedes it (no h5py.File, mkdir, temporary
directory), the scratch directory is unchanged and no HDF5 object is open."""
import copy
import os

from .. import scen
from ..common import Discard, Violation, digest_obj, substream
from ..engine import run_scenario
from . import base

ID = "C19"
LEVEL = "exploration"
RULE = (
    "ill-posed variants of well-posed scenarios: unbalanced constant currents (relative imbalance 1..1e-6), time-dependent currents "
    "unbalanced on a window (fraction of the run 1..1e-6), unknown terminal names, epsilon > 1 (constant/spatial, excess 0.5..1e-6), "
    "each inconsistent option SolverOptions.validate names, a terminal touching no boundary, a seed solution from a different device, "
    "a vector potential of the wrong shape, invalid polygons and device definitions; with/without explicit output path, empty/populated "
    "directory, scheduled validator RNG seed. Non-trivial = the defect was applied and the run reached a verdict; distinct = scenario digests"
)
LIFECYCLES = {}  # shared object life cycles (scen.add_lifecycles) with their default rates
BUDGET = {"quick": {"runs": 1500, "chunk": 25}, "thorough": {"runs": 200000, "chunk": 50}}
COMPONENTS = {"real": ["SolverOptions.validate", "TDGLSolver.__init__ validation + validate_terminal_currents", "Device/Polygon constructors", "TDGLSolver.solve seed check", "DataHandler (its file events are what must NOT happen)"], "stub": ["validator RNG (seed is a scheduled input)", "wall clock"]}

OPTION_DEFECTS = [
    ("dt_init>dt_max", {"dt_init": 0.2, "dt_max": 0.1}),
    ("dt_init>dt_max-tiny", {"dt_init": 0.1000001, "dt_max": 0.1}),
    ("terminal_psi>1", {"terminal_psi": 1.5}),
    ("terminal_psi>1-tiny", {"terminal_psi": 1.000001}),
    ("terminal_psi-complex>1", {"terminal_psi": {"re": 0.8, "im": 0.8}}),
    ("multiplier=0", {"adaptive_time_step_multiplier": 0.0}),
    ("multiplier=1", {"adaptive_time_step_multiplier": 1.0}),
    ("multiplier<0", {"adaptive_time_step_multiplier": -0.25}),
    ("drag=0", {"screening_step_drag": 0.0}),
    ("drag>1", {"screening_step_drag": 1.000001}),
    ("step_size=0", {"screening_step_size": 0.0}),
    ("step_size<0", {"screening_step_size": -0.1}),
    ("tolerance=0", {"screening_tolerance": 0.0}),
    ("tolerance<0", {"screening_tolerance": -1e-3}),
    ("solver-unknown", {"sparse_solver": "unknown"}),
    ("gpu-without-cupy", {"gpu": True}),
    ("umfpack-missing", {"sparse_solver": "umfpack"}),
    ("pardiso-missing", {"sparse_solver": "pardiso"}),
    ("cupy-solver-without-gpu", {"sparse_solver": "cupy"}),
]
CLASSES = ["unbalanced-const", "unbalanced-window", "unbalanced-always", "unknown-terminal", "epsilon>1", "option", "empty-terminal", "seed-mismatch", "A-shape", "bad-polygon", "bad-device"]


def gen(seed, idx, tier):
    rnd = substream(seed, idx, "c19")
    cls = rnd.choice(CLASSES)
    need_terms = cls in ("unbalanced-const", "unbalanced-window", "unbalanced-always", "unknown-terminal", "empty-terminal")
    scn = scen.gen_physics(
        rnd,
        n_terminals=rnd.choice([2, 3]) if need_terms else rnd.choice([0, 2]),
        steps=(2, 5),
        dt_choices=[0.01],
        screening=False,
        therm=False,
        adaptive=rnd.random() < 0.5,
        field_kinds=("zero", "const"),
        eps_kinds=("none",),
        dyn_currents=False,
        size="tiny" if not need_terms else "small",
        n_holes=0 if cls == "empty-terminal" else rnd.choice([0, 1]),
    )
    if scn["drive"]["currents"] is not None and scn["drive"]["currents"]["kind"] == "const_callable":
        scn["drive"]["currents"]["kind"] = "const"
    names = [t["name"] for t in scn["device"]["terminals"]]
    cu = scn["options"]["current_units"]
    T = scn["options"]["solve_time"]
    defect = {"class": cls}
    if cls == "unbalanced-const":
        rel = rnd.choice([1.0, 1e-2, 1e-4, 1e-6])
        I = scen.balanced_currents(rnd, names, scen.CUR_FACTOR[cu])
        big = max(abs(v) for v in I.values())
        I[names[0]] += rel * big
        scn["drive"]["currents"] = {"kind": rnd.choice(["const", "const_callable"]), "I": I}
        defect["rel"] = rel
    elif cls in ("unbalanced-window", "unbalanced-always"):
        rel = rnd.choice([1.0, 1e-2, 1e-6])
        frac = 1.0 if cls == "unbalanced-always" else rnd.choice([0.3, 0.01, 1e-3, 1e-6])
        I = scen.balanced_currents(rnd, names, scen.CUR_FACTOR[cu])
        Ibad = dict(I)
        Ibad[names[0]] += rel * max(abs(v) for v in I.values())
        if frac >= 1.0:
            scn["drive"]["currents"] = {"kind": "pw", "times": [0.5 * T], "values": [Ibad, Ibad]}
        else:
            t0 = rnd.uniform(0.05, 0.9 - frac) * T
            scn["drive"]["currents"] = {"kind": "pw", "times": [t0, t0 + frac * T], "values": [I, Ibad, I]}
        defect.update(rel=rel, window_frac=frac)
    elif cls == "unknown-terminal":
        I = scen.balanced_currents(rnd, names, scen.CUR_FACTOR[cu])
        ghost = rnd.choice(["ghost", "Source", "drain "])
        if rnd.random() < 0.5:
            I[ghost] = 0.0
        else:
            I[ghost] = I.pop(names[0])
        scn["drive"]["currents"] = {"kind": rnd.choice(["const", "const_callable"]), "I": I}
    elif cls == "epsilon>1":
        ex = rnd.choice([0.5, 1e-2, 1e-6])
        r_ = rnd.random()
        if r_ < 0.4:
            scn["drive"]["epsilon"] = {"kind": "const", "v": 1.0 + ex}
        elif r_ < 0.65:
            # a plain per-site callable: the python int 1 on one half of the device, 1 + excess on the other
            scn["drive"]["epsilon"] = {"kind": "int_step", "side": rnd.choice([1, -1]), "lo": 1, "hi": 1.0 + ex}
        else:
            scn["drive"]["epsilon"] = {"kind": rnd.choice(["spatial", "scalar_spatial"]), "amp": -ex, "k": [1.0, 0.5], "base": 1.0}
        defect["excess"] = ex
    elif cls == "option":
        name, upd = rnd.choice(OPTION_DEFECTS)
        defect["option"] = name
        phase = rnd.choice(["direct", "direct", "pre", "post"])
        defect["phase"] = phase
        if phase == "direct":
            scn["options"].update(copy.deepcopy(upd))
        else:
            # the options object was valid when first validated / when the solver was built and
            # was changed in place afterwards
            valid = {k: scn["options"][k] for k in upd if k in scn["options"]}
            scn["options_late"] = {"phase": phase, "updates": copy.deepcopy(upd), "valid": valid}
    elif cls == "empty-terminal":
        scn["device"]["terminals"][-1]["inside"] = True
        scn["allow_empty_terminal"] = True
        r2 = substream(seed, idx, "c19-shared-mesh")
        if r2.random() < 0.5:
            # the ill-posed device re-uses the mesh of a well-posed sibling (same film and holes, the terminal
            # where it belongs) that was looked at or simulated on first
            scn["mesh_shared_with_wellposed"] = {"used": r2.random() < 0.5}
    elif cls == "seed-mismatch":
        defect["seed_change"] = rnd.choice(["film", "layer", "probes", "terminals", "holes", "name", "hole-moved", "one-terminal-less", "inplace-layer", "inplace-layer", "inplace-move"])
    elif cls == "A-shape":
        defect["shape"] = rnd.choice(["scalar", "column", "short", "plain-col1", "plain-flat", "plain-short"])
        if defect["shape"].startswith("plain-"):
            # a plain callable (tdgl.Parameter would squeeze its output)
            scn["drive"]["field"] = {"kind": "plain", "shape": defect["shape"][6:], "B": 0.2 * scen.FIELD_FACTOR[scn["options"]["field_units"]]}
        else:
            scn["drive"]["field"] = {"kind": "tree", "tree": {"leaf": {"scalar": "scalar2d", "column": "column2d", "short": "short3d"}[defect["shape"]], "a": 0.1, "b": 0.2}}
    elif cls == "bad-polygon":
        defect["poly"] = rnd.choice(["bowtie", "two-points", "hole-bowtie"])
    elif cls == "bad-device":
        defect["dev"] = rnd.choice(["dup-terminal", "unnamed-terminal", "dup-hole", "probe-outside", "probe-shape", "probe-in-hole", "probe-in-hole"])
        if defect["dev"] == "probe-in-hole":
            defect["n_holes"] = rnd.choice([1, 2, 3])
            defect["which"] = rnd.randrange(defect["n_holes"])
            defect["inset"] = rnd.choice([0.25, 0.1, 0.01])  # distance of the probe from the hole's edge, in xi
    scn["defect"] = defect
    out = None
    pre = {}
    if rnd.random() < 0.6:
        out = {"path": rnd.choice(["out.h5", "new/dir/out.h5"]), "absolute": rnd.random() < 0.7}
        if rnd.random() < 0.4:
            pre = {"notes.txt": "x", "out.h5": "h5"} if out["path"] == "out.h5" else {"notes.txt": "x"}
    scn["observer"] = {"output": out, "preexisting": pre}
    scn["env"] = {"rng_seed": rnd.randrange(10**6)}
    return scn


def apply_structural_defect(scn):
    """Defects that live in the device specification."""
    d = scn["defect"]
    dev = scn["device"]
    if d["class"] == "bad-polygon":
        if d["poly"] == "bowtie":
            dev["film"] = {"kind": "poly", "pts": [[-2, -1], [2, 1], [2, -1], [-2, 1]]}
        elif d["poly"] == "two-points":
            dev["film"] = {"kind": "poly", "pts": [[-2, -1], [2, 1]]}
        else:
            dev["holes"] = [{"kind": "poly", "pts": [[-0.5, -0.5], [0.5, 0.5], [0.5, -0.5], [-0.5, 0.5]], "name": "hole0"}]
    elif d["class"] == "bad-device":
        if d["dev"] == "dup-terminal":
            dev["terminals"] = [{"name": "source", "side": "left", "span": [0.1, 0.9], "depth": 0.3}, {"name": "source", "side": "right", "span": [0.1, 0.9], "depth": 0.3}]
        elif d["dev"] == "unnamed-terminal":
            dev["terminals"] = [{"name": None, "side": "left", "span": [0.1, 0.9], "depth": 0.3}]
        elif d["dev"] == "dup-hole":
            dev["holes"] = [{"kind": "ellipse", "a": 0.2, "b": 0.2, "npts": 6, "c": [-0.6, 0.0], "name": "h"}, {"kind": "ellipse", "a": 0.2, "b": 0.2, "npts": 6, "c": [0.6, 0.0], "name": "h"}]
        elif d["dev"] == "probe-outside":
            dev["probes"] = [[0.0, 0.0], [100.0, 0.0]]
        elif d["dev"] == "probe-shape":
            dev["probes"] = [[0.0, 0.0, 1.0], [0.5, 0.0, 1.0]]
        elif d["dev"] == "probe-in-hole":
            # a voltage probe inside one of several holes (not necessarily the last one defined)
            cx = [-0.9, 0.0, 0.9][: d["n_holes"]]
            dev["holes"] = [{"kind": "ellipse", "a": 0.25, "b": 0.25, "npts": 12, "c": [c, 0.0], "name": f"h{i}"} for i, c in enumerate(cx)]
            dev["terminals"] = []
            dev["probes"] = [[cx[d["which"]] + 0.25 - d["inset"], 0.0], [0.45, 0.6]]


def run(scn):
    scn = copy.deepcopy(scn)
    d = scn["defect"]
    apply_structural_defect(scn)
    seed_sol = None
    sims = []
    try:
        if d["class"] == "seed-mismatch":
            other = copy.deepcopy(scn)
            other["defect"] = None
            ch = d["seed_change"]
            if ch == "film":
                other["device"]["film"] = dict(other["device"]["film"])
                key = "w" if other["device"]["film"]["kind"] == "box" else "a"
                other["device"]["film"][key] = other["device"]["film"][key] * 1.25
            elif ch == "layer":
                other["device"]["layer"] = dict(other["device"]["layer"], lam=other["device"]["layer"]["lam"] * 2)
            elif ch == "probes":
                other["device"]["probes"] = None if other["device"]["probes"] else [[0.1, 0.1], [-0.1, 0.1]]
            elif ch in ("inplace-layer", "inplace-move"):
                # the seed is computed on the very Device object that is then edited in place and simulated
                # again: the Solution's own record of its device must not follow the edit
                other["device_derived"] = "copy"  # a private object, never the generator's cached device
                if ch == "inplace-move":
                    other["device"]["probes"] = None
                    scn["device"]["probes"] = None
            elif ch == "name":
                other["device"]["name"] = "another_device"
            elif ch in ("holes", "hole-moved"):
                holes = copy.deepcopy(other["device"].get("holes") or [])
                if ch == "hole-moved" and holes:
                    holes[-1]["c"] = [holes[-1]["c"][0] + 0.15, holes[-1]["c"][1] - 0.1]
                elif holes:
                    holes = holes[:-1]  # the seed's device has one hole less (a prefix of the hole list)
                else:
                    hw, hh = scen.film_half_extent(other["device"]["film"])
                    holes = [{"kind": "ellipse", "a": 0.2 * min(hw, hh), "b": 0.2 * min(hw, hh), "npts": 8, "c": [0.05, -0.03], "name": "hole0"}]
                other["device"]["holes"] = holes
                if other["device"].get("probes"):
                    other["device"]["probes"] = None
                    scn["device"]["probes"] = None
            elif ch == "one-terminal-less" and len(other["device"]["terminals"]) >= 3:
                # the seed's device has one terminal less (a prefix of the terminal list)
                other["device"]["terminals"] = other["device"]["terminals"][:-1]
                other["drive"]["currents"] = None
            else:
                other["device"]["terminals"] = [] if other["device"]["terminals"] else scen.gen_terminals(substream(1, "t"), other["device"]["film"], 2)
                other["drive"]["currents"] = None
            other["observer"] = {"output": {"path": "seed.h5", "absolute": True}}
            sim0, h0 = run_scenario(other)
            sims.append(sim0)
            if h0.outcome != "solution":
                raise Discard(f"seed run did not complete: {h0.outcome}")
            seed_sol = h0.solution
            if ch in ("inplace-layer", "inplace-move"):
                dev_obj = h0.device
                if ch == "inplace-layer":
                    attr = substream(1, "inplace", scn["device"]["film"].get("npts", 0)).choice(["london_lambda", "gamma", "u", "thickness"])
                    setattr(dev_obj.layer, attr, getattr(dev_obj.layer, attr) * 1.5 + (0.5 if attr == "gamma" else 0.0))
                else:
                    xi_ = float(scn["device"]["layer"]["xi"])
                    dev_obj.translate(0.4 * xi_, -0.3 * xi_, inplace=True)
                scn.pop("device_history", None)
                scn.pop("device_derived", None)
        sim, h = run_scenario(scn, seed_solution=seed_sol, device_object=dev_obj if d["class"] == "seed-mismatch" and d.get("seed_change") in ("inplace-layer", "inplace-move") else None)
        sims.append(sim)
        V = []
        where = {k: v for k, v in d.items()}
        where["explicit_output"] = scn["observer"]["output"] is not None
        stepped = bool(h.stages["S"] or h.stages["T"])
        # an error raised after time steps were taken (e.g. a convergence failure) is not a
        # rejection of the problem statement: the ill-posed problem was simulated
        rejected = (h.outcome.startswith("rejected") or h.outcome.startswith("raised")) and not stepped
        fs = [e for e in h.fs_events]
        if not rejected and d["class"] == "unknown-terminal":
            # not in the property's list of ill-posed classes (a dict entry for an unknown
            # name is ignored by design); only the cleanliness of a rejection is checked
            h.probe("unknown-terminal-ignored")
        elif not rejected:
            V.append(Violation("accepted", f"ill-posed problem ({d}) was simulated ({len(h.stages['S']) + len(h.stages['T'])} updates): solve() {h.outcome}", **where))
        else:
            if fs:
                V.append(Violation("rejected-late", f"{h.exc[0]} raised only after file-system events {fs[:3]} ({d})", **where))
            new = {p: v for p, v in h.fs_after.items() if p not in h.fs_before}
            changed = [p for p in h.fs_before if h.fs_after.get(p) != h.fs_before[p]]
            if new or changed:
                V.append(Violation("left-behind", f"rejection left files/directories behind: new={sorted(new)[:4]} changed={changed[:4]}", **where))
            if h.h5_open_after != h.h5_open_before:
                V.append(Violation("handle-leak", "HDF5 objects left open after a rejection", **where))
        seen = set()
        Vd = [v for v in V if not (v["rule"] in seen or seen.add(v["rule"]))]
        h.probe("class:" + d["class"])
        if h.exc:
            h.probe("rejected-by:" + h.exc[0])
        res = base.summarize(scn, h, Vd, True, (d["class"], d.get("option"), d.get("phase"), d.get("rel"), d.get("window_frac"), d.get("excess"), d.get("poly"), d.get("dev"), d.get("n_holes"), d.get("which"), d.get("inset"), d.get("seed_change"), d.get("shape"), h.outcome.split(":")[0], h.exc[0] if h.exc else None, scn["observer"]["output"] is None))
        return res
    finally:
        for s in sims:
            s.cleanup()


def shrink(scn):
    for s in base.physics_shrinks(scn):
        if scn["defect"]["class"] in ("unbalanced-const", "unbalanced-window", "unbalanced-always", "unknown-terminal") and (s["drive"].get("currents") != scn["drive"].get("currents") or len(s["device"]["terminals"]) != len(scn["device"]["terminals"])):
            continue
        if scn["defect"]["class"] == "epsilon>1" and s["drive"].get("epsilon") != scn["drive"].get("epsilon"):
            continue
        if scn["defect"]["class"] == "A-shape" and s["drive"]["field"] != scn["drive"]["field"]:
            continue
        yield s
