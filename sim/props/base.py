"""Shared plumbing of the per-property modules."""
import copy
import traceback

from ..common import Discard, HarnessError, Violation, digest_obj
from ..engine import InjectedError, InjectedMemoryError, run_scenario

EXPECTED_LIB_ERRORS = (
    "Solver failed to converge",
    "Screening calculation failed to converge",
)


def injected(exc):
    """True if the exception object is a payload the simulator injected."""
    if exc is None:
        return False
    if isinstance(exc, (InjectedError, InjectedMemoryError)):
        return True
    return "injected:" in str(exc)


def expected_library_error(h):
    if h.exc is None:
        return False
    return h.exc[0] == "RuntimeError" and any(m in h.exc[1] for m in EXPECTED_LIB_ERRORS)


def summarize(scn, h, V, nontrivial, sig, extra=None):
    S = [u for u in h.stages["S"] if u["out"] is not None]
    T = [u for u in h.stages["T"] if u["out"] is not None]
    stats = {
        "steps": len(S) + len(T),
        "sim_time": float(sum(u["dt"] for u in S) + sum(u["dt"] for u in T)),
        "probes": dict(h.probes),
        "faults": [f["kind"] for f in h.faults_fired] + ["guest-simulation"] * len(getattr(h, "guests_fired", [])),
        "attempts": sum(len(u["attempts"]) for u in S + T),
        "screen_iters": sum(u["n_screen"] for u in S + T),
        "sites": len(h.device.mesh.sites) if h.device is not None and h.device.mesh is not None else 0,
    }
    if extra:
        stats.update(extra)
    return {
        "digest": digest_obj(scn),
        "outcome": h.outcome,
        "exc": h.exc,
        "violations": [dict(v) for v in V],
        "nontrivial": bool(nontrivial),
        "sig": sig,
        "fingerprint": h.fingerprint(),
        "stats": stats,
        "discard": None,
    }


def discard_result(scn, reason):
    return {
        "digest": digest_obj(scn),
        "outcome": "discard",
        "exc": None,
        "violations": [],
        "nontrivial": False,
        "sig": ("discard", reason),
        "fingerprint": "discard:" + reason,
        "stats": {"steps": 0, "sim_time": 0.0, "probes": {}, "faults": [], "attempts": 0, "screen_iters": 0, "sites": 0},
        "discard": reason,
    }


def safe_run(run_fn, scn):
    """Run a property's executor; classify Discard / harness failures."""
    try:
        return run_fn(copy.deepcopy(scn))
    except Discard as d:
        return discard_result(scn, str(d))
    except HarnessError:
        raise
    except Exception as e:  # a bug in the machinery, never a VIOLATION
        raise HarnessError(f"{type(e).__name__}: {e}\n{traceback.format_exc()}")


# ---------------------------------------------------------------- generic shrinking moves
def drop_each(lst):
    for i in range(len(lst)):
        yield lst[:i] + lst[i + 1 :]


def with_path(scn, path, value):
    s = copy.deepcopy(scn)
    d = s
    for p in path[:-1]:
        d = d[p]
    d[path[-1]] = value
    return s


def get_path(scn, path, default=None):
    d = scn
    for p in path:
        if not isinstance(d, dict) or p not in d:
            return default
        d = d[p]
    return d


def common_shrinks(scn):
    """Simplifications meaningful for every Engine-A/B scenario (DESIGN 2.7)."""
    # (1) drop faults one by one
    faults = scn.get("faults", [])
    for fl in drop_each(faults):
        yield with_path(scn, ["faults"], fl)
    for gl in drop_each(scn.get("guests", [])):
        yield with_path(scn, ["guests"], gl)
    o = scn["options"]
    for key in ("solve_twice", "reload_phase", "sibling", "device_restored", "device_moved", "device_derived", "entry", "device_used_before", "options_prior_use", "mesh_reoriented", "mesh_shared_with_wellposed", "guests"):
        if scn.get(key):
            s_ = copy.deepcopy(scn)
            s_.pop(key)
            yield s_
    # (2) shorten
    if o.get("skip_time"):
        s = with_path(scn, ["options", "skip_time"], 0.0)
        if "stub" in s:
            s["stub"]["dts_T"] = []
        yield s
    if "stub" not in scn and o["solve_time"] > 4 * o["dt_init"]:
        yield with_path(scn, ["options", "solve_time"], o["solve_time"] / 2)
    # (3) simplify the drive
    dr = scn.get("drive", {})
    if dr.get("field", {}).get("kind", "zero") != "zero":
        yield with_path(scn, ["drive", "field"], {"kind": "zero"})
        if dr["field"]["kind"] not in ("const",) and "B" in dr["field"]:
            yield with_path(scn, ["drive", "field"], {"kind": "const", "B": dr["field"]["B"]})
    if dr.get("currents") is not None:
        yield with_path(scn, ["drive", "currents"], None)
        if dr["currents"]["kind"] == "pw":
            yield with_path(scn, ["drive", "currents"], {"kind": "const", "I": dr["currents"]["values"][0]})
    if dr.get("epsilon") is not None:
        yield with_path(scn, ["drive", "epsilon"], None)
    # (4) simplify the device
    if scn.get("device_history"):
        s = copy.deepcopy(scn)
        s.pop("device_history")
        yield s
    dv = scn["device"]
    if dv.get("holes"):
        yield with_path(scn, ["device", "holes"], [])
    if dv.get("probes"):
        yield with_path(scn, ["device", "probes"], None)
    if dv.get("terminals") and dr.get("currents") is None:
        yield with_path(scn, ["device", "terminals"], [])
    if dv["mesh"].get("smooth"):
        yield with_path(scn, ["device", "mesh", "smooth"], 0)
    if dv["layer"].get("z0"):
        yield with_path(scn, ["device", "layer", "z0"], 0.0)
    if dv["film"]["kind"] != "box" and not dv.get("terminals"):
        yield with_path(scn, ["device", "film"], {"kind": "box", "w": 4.0, "h": 3.0, "npts": 12})
    # (5) options to defaults
    if o.get("include_screening"):
        yield with_path(scn, ["options", "include_screening"], False)
    if o.get("adaptive") and "stub" not in scn:
        yield with_path(scn, ["options", "adaptive"], False)
    # (6) environment
    ob = scn.get("observer", {})
    if ob.get("output") is not None:
        yield with_path(scn, ["observer", "output"], None)
    if ob.get("preexisting"):
        yield with_path(scn, ["observer", "preexisting"], {})
    if dv["length_units"] != "um":
        from ..scen import LEN_FACTOR

        s = copy.deepcopy(scn)
        f = LEN_FACTOR[dv["length_units"]]
        for key in ("xi", "lam", "d", "z0"):
            s["device"]["layer"][key] = float(f"{dv['layer'].get(key, 0.0) / f:.6g}")
        s["device"]["length_units"] = "um"
        yield s


# ------------------------------------------------------------------ Engine-A helper
def physics_run(scn, checkers, nontrivial, sig, extra=None, post=None, **kw):
    """Run an Engine-A scenario with online checkers.

    nontrivial(h, checkers) -> bool, sig(h) -> tuple, extra(h, checkers) -> dict,
    post(sim, h) -> list of Violations evaluated on the recorded history afterwards.
    """
    from ..engine import run_scenario as _run

    prior = scn.get("options_prior_use")
    sim0 = None
    if prior and "options_as_is" not in kw and "options_from" not in kw:
        # option life cycle: the caller's SolverOptions object was used for an earlier, short run on a
        # variant of the device (a bare film relaxed first, the same device, ...) and is handed to the
        # run under test as it is, apart from the two fields the caller sets back; the oracles keep the
        # declared option values
        s0 = copy.deepcopy(scn)
        for key in ("options_prior_use", "solve_twice", "sibling", "device_history", "device_moved", "device_restored", "device_derived", "device_used_before", "entry", "psi_init"):
            s0.pop(key, None)
        s0["faults"] = []
        s0["observer"] = {"output": None}
        for field, alt in prior.get("changed", {}).items():
            s0["options"][field] = alt
        s0["options"]["solve_time"] = s0["options"]["dt_init"] * prior["steps"]
        s0["options"]["skip_time"] = 0.0
        if prior["variant"] == "no-terminals":
            s0["device"]["terminals"] = []
            s0["drive"]["currents"] = None
        elif prior["variant"] == "no-holes":
            s0["device"]["holes"] = []
        from .. import build as _B

        if prior.get("run", True):
            sim0, h0 = _run(s0)
            if h0.outcome.startswith("rejected") or getattr(sim0, "options", None) is None:
                sim0.cleanup()
                raise Discard(f"prior use of the options did not run: {h0.outcome}")
            opts = sim0.options
        else:
            opts = _B.build_options(s0["options"], None)  # constructed with the other values, never used
        declared = _B.build_options(scn["options"], None)
        for field in ["solve_time", "skip_time"] + list(prior.get("changed", {})):
            setattr(opts, field, getattr(declared, field))
        kw["options_as_is"] = opts
    sim, h = _run(scn, checkers=checkers, **kw)
    try:
        V = list(sim.violations)
        if h.outcome.startswith("rejected"):
            if post is not None:
                V += post(sim, h) or []
            if not V:
                raise Discard(f"rejected:{h.exc[0]}:{h.exc[1][:50]}")
        elif post is not None:
            V += post(sim, h) or []
        if h.outcome == "capped":
            pass
        elif h.outcome.startswith("raised") and not expected_library_error(h) and not injected(h.exc_obj):
            h.probe("unexpected-exception:" + h.exc[0])
        # de-duplicate by rule: the first occurrence of every rule is the report
        seen = set()
        Vd = []
        for v in V:
            if v["rule"] not in seen:
                seen.add(v["rule"])
                Vd.append(v)
        base_sig = (
            h.outcome,
            len(scn["device"].get("terminals", [])),
            len(scn["device"].get("holes", [])),
            scn["drive"]["field"]["kind"],
            (scn["drive"].get("currents") or {}).get("kind"),
            (scn["drive"].get("epsilon") or {}).get("kind"),
            bool(scn["options"].get("include_screening")),
            bool(scn["options"].get("adaptive")),
            bool(scn["options"].get("skip_time")),
            tuple(sorted({f["kind"] for f in h.faults_fired})),
        )
        return summarize(scn, h, Vd, nontrivial(h, checkers), base_sig + tuple(sig(h) if sig else ()), extra=extra(h, checkers) if extra else None)
    finally:
        sim.cleanup()
        if sim0 is not None:
            sim0.cleanup()


def physics_shrinks(scn):
    yield from common_shrinks(scn)
    o = scn["options"]
    for key, default in (("save_every", 100), ("adaptive_window", 10), ("max_solve_retries", 10), ("adaptive_time_step_multiplier", 0.25)):
        if key in o and o[key] != default:
            yield with_path(scn, ["options", key], default)
    if o.get("terminal_psi", 0.0) != 0.0:
        yield with_path(scn, ["options", "terminal_psi"], 0.0)
    dv = scn["device"]
    terms = dv.get("terminals", [])
    cur = scn["drive"].get("currents")
    if len(terms) > 2 and cur is not None and cur["kind"] == "const":
        # drop the last terminal and re-balance on the first two
        s = copy.deepcopy(scn)
        s["device"]["terminals"] = terms[:2]
        a = cur["I"][terms[0]["name"]] or 1.0
        s["drive"]["currents"] = {"kind": "const", "I": {terms[0]["name"]: a, terms[1]["name"]: -a}}
        yield s
    for fu, cu in (("mT", "uA"),):
        if o.get("field_units", "mT") != fu and scn["drive"]["field"]["kind"] == "zero":
            yield with_path(scn, ["options", "field_units"], fu)
        if o.get("current_units", "uA") != cu and cur is None:
            yield with_path(scn, ["options", "current_units"], cu)
