"""C11 - the trajectory depends only on the physics and can be resumed.

(a) one physics scenario under 2-4 observer configurations (save_every, output file vs temp
dir, probes present/absent on the same mesh object, progress reporting, monitor flag,
pause flag, thread count): the whole trajectory (every update's output, bit for bit) and
all frames carrying the same step label must be identical.
(b) crash-restart flavour: fixed-step run of N1 steps, durable output reloaded with
Solution.from_hdf5 (fresh objects), run of N2 steps seeded with it, compared frame by frame
bit for bit with the uninterrupted run of N1+N2 steps.
"""
import copy
import os

import numpy as np
from ..common import aeq  # noqa: E402

from .. import build as B
from .. import recorder, scen
from ..common import Discard, Violation, digest_obj, substream
from ..engine import run_scenario
from . import base

ID = "C11"
LEVEL = "exploration"
RULE = (
    "groups = one physics scenario x 2..4 observer configurations (save_every, output path/None, probes on/off, "
    "progress_interval, monitor, pause flag, threads), or one fixed-step scenario x split point N1+N2 (N <= 16 and sampled "
    "longer) resumed through the durable file; non-trivial = at least 3 updates compared in every member of the group; "
    "distinct = distinct group digests"
)
LIFECYCLES = {}  # shared object life cycles (scen.add_lifecycles) with their default rates
BUDGET = {"quick": {"runs": 400, "chunk": 8}, "thorough": {"runs": 40000, "chunk": 10}}
COMPONENTS = {"real": ["Runner/DataHandler/RunningState", "TDGLSolver.update + solve seeding path", "Solution.from_hdf5 / Device.from_hdf5"], "stub": ["monitor subprocess (recorded)", "wall clock / perf_counter (simulated)", "input()"]}
STATE = ("psi", "mu", "supercurrent", "normal_current", "induced_vector_potential")


def gen(seed, idx, tier):
    rnd = substream(seed, idx, "c11")
    if rnd.random() < 0.45:
        return gen_resume(rnd)
    scn = scen.gen_physics(rnd, steps=(3, 20), refuse=0.15, n_probes=rnd.choice([2, 3]))
    steps = scn["meta"]["steps"]
    obs = []
    for j in range(rnd.randint(2, 4)):
        obs.append(
            {
                "save_every": rnd.choice([1, 2, 3, 5, 7, steps, steps + 2, 100]),
                "output": rnd.choice([None, {"path": "out.h5", "absolute": True}, {"path": "d/o.h5", "absolute": False}]),
                "probes": rnd.random() < 0.6,
                "progress_interval": rnd.choice([0, 1, 3, 1000000]),
                "monitor": rnd.random() < 0.25,
                "name_taken": rnd.random() < 0.3,
                "pause_on_interrupt": rnd.random() < 0.5,
                "threads": rnd.choice([1, 1, 2, 4]),
                "clock": {"start": 1.7e9 + rnd.randrange(10**6), "steps": [rnd.choice([0.01, 1.0, -5.0, 3600.0]) for _ in range(3)]},
            }
        )
    return {"mode": "observers", "base": scn, "observers": obs, "options": scn["options"], "device": scn["device"], "drive": scn["drive"], "faults": []}


def gen_resume(rnd):
    longer = rnd.random() < 0.1
    N = rnd.randint(17, 40) if longer else rnd.randint(2, 16)
    N1 = rnd.randint(1, N - 1)
    scn = scen.gen_physics(
        rnd,
        adaptive=False,
        therm=False,
        steps=(N, N),
        dt_choices=[1e-3, 0.01, 0.05],
        field_kinds=("zero", "const", "const"),
        dyn_currents=False,
        eps_kinds=("none", "none", "const", "spatial"),
        screening=rnd.random() < 0.12,
    )
    if scn["options"]["include_screening"]:
        N = min(N, 6)
        N1 = min(N1, N - 1)
    if scn["drive"]["currents"] is not None and scn["drive"]["currents"]["kind"] == "const_callable":
        scn["drive"]["currents"]["kind"] = "const"
    scn["options"]["save_every"] = rnd.choice([1, 2, 3, 100])
    dt = scn["options"]["dt_init"]
    scn["meta"]["steps"] = N
    off = [rnd.choice([0.0, 0.0, 0.5, 0.3, 0.9]) for _ in range(3)]
    look = rnd.sample(["plot_scalar_potential", "plot_order_parameter", "plot_currents", "plot_vorticity", "current_density", "field"], rnd.choice([1, 2, 3])) if rnd.random() < 0.3 else None
    return {"mode": "resume", "off": off, "look_at_seed": look, "base": scn, "N": N, "N1": N1, "k2": rnd.choice([1, 2, 100]), "options": scn["options"], "device": scn["device"], "drive": scn["drive"], "faults": []}


def traj(h):
    out = []
    for st in ("T", "S"):
        for u in h.stages[st]:
            if u["out"] is not None:
                out.append((st, u["step"], u["dt"], u["out"]))
    return out


def run_observers(scn):
    base_scn = scn["base"]
    V = []
    hs = []
    sims = []
    fps = []
    # one mesh object for all members (probes on/off would otherwise rebuild an identical mesh)
    dev0 = B.build_device(base_scn["device"])
    old_lock = os.environ.get("HDF5_USE_FILE_LOCKING")
    try:
        for j, ob in enumerate(scn["observers"]):
            s = copy.deepcopy(base_scn)
            s["options"]["save_every"] = ob["save_every"]
            s["options"]["progress_interval"] = ob["progress_interval"]
            s["options"]["monitor"] = ob["monitor"]
            s["options"]["pause_on_interrupt"] = ob["pause_on_interrupt"]
            s["observer"] = {"output": ob["output"]}
            if ob.get("name_taken") and ob["output"] is not None:
                # the requested output name is already taken (the script is run a second time): the run goes
                # to a fresh name, and what its Solution shows must still be this run
                s["observer"]["preexisting"] = {ob["output"]["path"]: "h5"}
            s["env"] = {"threads": ob["threads"], "clock": ob["clock"]}
            if not ob["probes"]:
                s["device"]["probes"] = None
            sim, h = run_scenario(s, mesh_from=dev0.mesh)
            sims.append(sim)
            hs.append(h)
            fps.append(h.fingerprint())
        for j, sm in enumerate(sims):
            for st, step, name in sm.alias_violations[:1]:
                if st == "seed":
                    V.append(Violation("state-mutated-in-place", f"the run wrote into '{name}' of the Solution it was seeded with: the record of the finished run it continues has been altered", quantity=name, seed=True))
                    continue
                V.append(Violation("state-mutated-in-place", f"configuration {j}: update {st}{step} modified the array of '{name}' it was handed in place (values must be rebound, not mutated)", quantity=name))
        h0 = hs[0]
        if h0.outcome.startswith("rejected"):
            raise Discard(f"rejected:{h0.exc[0]}:{h0.exc[1][:40]}")
        t0 = traj(h0)
        for j, h in enumerate(hs[1:], 1):
            where = dict(member=j, a=scn["observers"][0], b=scn["observers"][j])
            where = {"diff": sorted(k for k in scn["observers"][0] if scn["observers"][0][k] != scn["observers"][j][k] and k != "clock")}
            if h.outcome.split(":")[0] != h0.outcome.split(":")[0]:
                V.append(Violation("outcome-differs", f"observer configuration {j} ended as {h.outcome}, configuration 0 as {h0.outcome}", **where))
            tj = traj(h)
            n = min(len(t0), len(tj))
            if len(t0) != len(tj):
                V.append(Violation("trajectory-length", f"configuration {j} made {len(tj)} updates, configuration 0 made {len(t0)}", **where))
            for (sa, ia, dta, oa), (sb, ib, dtb, ob_) in zip(t0[:n], tj[:n]):
                bad = [nme for nme in oa if nme in ob_ and not aeq(np.asarray(oa[nme]), np.asarray(ob_[nme]))]
                if (sa, ia) != (sb, ib) or dta != dtb or bad:
                    V.append(Violation("trajectory-differs", f"update {sa}{ia}: configuration {j} differs from configuration 0 (dt {dta!r} vs {dtb!r}; arrays {bad})", step=ia, **where))
                    break
        # frames with the same label are identical across configurations and equal the state for that label
        by_label = {}
        for j, h in enumerate(hs):
            for fr in h.frames:
                if not fr["completed"]:
                    continue
                ref = by_label.setdefault(fr["step"], (j, fr))
                if ref[0] != j:
                    bad = [nme for nme in fr["data"] if nme in ref[1]["data"] and not aeq(fr["data"][nme], ref[1]["data"][nme])]
                    if bad or fr["time"] != ref[1]["time"]:
                        V.append(Violation("frame-differs", f"frame with step label {fr['step']} differs between configurations {ref[0]} and {j}: {bad} (time {ref[1]['time']!r} vs {fr['time']!r})", step=fr["step"], k_a=scn["observers"][ref[0]]["save_every"], k_b=scn["observers"][j]["save_every"]))
                exp = recorder.state_after(h0, fr["step"])
                if exp is not None:
                    bad = [nme for nme in fr["data"] if nme in exp and exp[nme] is not None and not aeq(fr["data"][nme], np.asarray(exp[nme]))]
                    if bad:
                        V.append(Violation("frame-vs-state", f"configuration {j}: frame labelled {fr['step']} is not the state after {fr['step']} updates ({bad})", step=fr["step"], k=scn["observers"][j]["save_every"]))
            # the file of explicit outputs holds what the writer was handed
            if h.out_path and os.path.exists(h.out_path):
                ffr, _ = recorder.read_frames(h.out_path)
                cap = [fr for fr in h.frames if fr["completed"]]
                for a, b in zip(cap, ffr):
                    bad = [nme for nme in a["data"] if not aeq(a["data"][nme], b["data"].get(nme))]
                    if bad or a["step"] != b["step"]:
                        V.append(Violation("file-vs-writer", f"configuration {j}: file frame {b['number']} differs from what the writer was handed ({bad})"))
                        break
        n_updates = min(len(traj(h)) for h in hs)
        seen = set()
        Vd = [v for v in V if not (v["rule"] in seen or seen.add(v["rule"]))]
        res = base.summarize(scn, h0, Vd, n_updates >= 3, ("observers", len(hs), h0.outcome, tuple(sorted({k for ob in scn["observers"][1:] for k in ob if ob[k] != scn["observers"][0][k] and k != "clock"}))), extra={"members": len(hs), "updates_compared": n_updates * (len(hs) - 1)})
        res["fingerprint"] = digest_obj(fps)
        return res
    finally:
        for sim in sims:
            sim.cleanup()
        if old_lock is None:
            os.environ.pop("HDF5_USE_FILE_LOCKING", None)
        else:
            os.environ["HDF5_USE_FILE_LOCKING"] = old_lock


def run_resume(scn):
    import tdgl

    base_scn = scn["base"]
    N, N1 = scn["N"], scn["N1"]
    N2 = N - N1
    dt = base_scn["options"]["dt_init"]
    sims = []
    try:
        sA = copy.deepcopy(base_scn)
        off = scn.get("off", [0.0, 0.0, 0.0])  # requested run lengths that are not whole multiples of the step
        sA["options"]["solve_time"] = scen.seq_sum([dt] * N) - off[0] * dt
        simA, hA = run_scenario(sA)
        sims.append(simA)
        if hA.outcome != "solution":
            raise Discard(f"uninterrupted run did not complete: {hA.outcome}")
        if len(hA.stages["S"]) != N:
            raise Discard("step count mismatch")
        s1 = copy.deepcopy(base_scn)
        s1["options"]["solve_time"] = scen.seq_sum([dt] * N1) - off[1] * dt
        s1["observer"] = {"output": {"path": "part1.h5", "absolute": True}}
        sim1, h1 = run_scenario(s1)
        sims.append(sim1)
        V = []
        if h1.outcome != "solution":
            raise Discard(f"first part did not complete: {h1.outcome}")
        # simulated restart: only the durable file survives
        path = h1.out_path
        del h1.solution
        try:
            seed = tdgl.Solution.from_hdf5(path)
        except Exception as e:
            V.append(Violation("reload-failed", f"the saved final state cannot be loaded: {type(e).__name__}: {str(e)[:100]}"))
            seed = None
        if seed is not None and scn.get("look_at_seed"):
            # the user looks at the saved state before continuing from it (plots, derived quantities):
            # looking is observing, it must leave the state the continuation starts from untouched
            names_ = ("psi", "mu", "supercurrent", "normal_current", "induced_vector_potential")
            snap_ = {n_: np.array(getattr(seed.tdgl_data, n_), copy=True) for n_ in names_}
            try:
                import matplotlib

                matplotlib.use("Agg", force=True)
                import matplotlib.pyplot as plt

                for viewer in scn["look_at_seed"]:
                    if viewer == "current_density":
                        _ = seed.current_density
                        _ = seed.supercurrent_density
                    elif viewer == "field":
                        _ = seed.field_at_position(np.array([[0.1, 0.2]]) * float(base_scn["device"]["layer"]["xi"]), zs=float(base_scn["device"]["layer"]["xi"]))
                    else:
                        getattr(seed, viewer)()
                    plt.close("all")
            except Exception as e:
                tb_ = __import__("traceback").extract_tb(e.__traceback__)
                if not any("/tdgl/" in f_.filename for f_ in tb_):
                    raise
                # viewers that do not work in this environment (numpy / matplotlib versions) are outside C11
            bad_ = [n_ for n_ in names_ if not aeq(np.asarray(getattr(seed.tdgl_data, n_)), snap_[n_])]
            if bad_:
                V.append(Violation("observation-changed-state", f"looking at the saved state ({', '.join(scn['look_at_seed'])}) changed {bad_} of the Solution the continuation starts from", quantity=bad_[0]))
        if seed is not None:
            s2 = copy.deepcopy(base_scn)
            s2["options"]["solve_time"] = scen.seq_sum([dt] * N2) - off[2] * dt
            s2["options"]["save_every"] = scn["k2"]
            sim2, h2 = run_scenario(s2, seed_solution=seed)
            sims.append(sim2)
            if h2.outcome != "solution":
                V.append(Violation("resume-failed", f"the resumed run ended as {h2.outcome} {h2.exc}", exc=h2.exc[0] if h2.exc else None))
            else:
                for fr in h2.frames:
                    if not fr["completed"]:
                        continue
                    exp = recorder.state_after(hA, N1 + fr["step"])
                    if exp is None:
                        V.append(Violation("resume-extra-frame", f"resumed run recorded step {fr['step']} beyond the uninterrupted run"))
                        break
                    bad = [nme for nme in STATE if not aeq(np.asarray(fr["data"][nme]), np.asarray(exp[nme]))]
                    if bad:
                        err = max(float(np.max(np.abs(np.asarray(fr["data"][nme]) - np.asarray(exp[nme])))) for nme in bad)
                        V.append(Violation("resume-differs", f"resumed frame {fr['step']} (= step {N1 + fr['step']} of the uninterrupted run) differs in {bad} (max |diff| {err:.3g}); split {N1}+{N2}", first_frame=(fr["step"] == 0), screening=bool(base_scn["options"]["include_screening"])))
                        break
                if len(h2.stages["S"]) != N2:
                    V.append(Violation("resume-length", f"resumed run made {len(h2.stages['S'])} updates, expected {N2}"))
        res = base.summarize(scn, hA, V, N >= 3, ("resume", N1 % max(1, base_scn["options"]["save_every"]) == 0, bool(base_scn["options"]["include_screening"]), len(base_scn["device"]["terminals"])), extra={"members": 3, "updates_compared": N2})
        res["fingerprint"] = digest_obj([h.fingerprint() for h in (hA, h1)] + ([h2.fingerprint()] if seed is not None else []))
        return res
    finally:
        for sim in sims:
            sim.cleanup()


def run(scn):
    if scn["mode"] == "observers":
        return run_observers(scn)
    return run_resume(scn)


def shrink(scn):
    if scn["mode"] == "observers":
        obs = scn["observers"]
        if len(obs) > 2:
            for o2 in base.drop_each(obs):
                yield base.with_path(scn, ["observers"], o2)
        # make member 1 equal to member 0 one key at a time
        for j in range(1, len(obs)):
            for key in obs[j]:
                if obs[j][key] != obs[0][key]:
                    s = copy.deepcopy(scn)
                    s["observers"][j][key] = copy.deepcopy(obs[0][key])
                    yield s
    for b in base.physics_shrinks(scn["base"]):
        s = copy.deepcopy(scn)
        s["base"] = b
        for key in ("options", "device", "drive"):
            s[key] = b[key]
        if scn["mode"] == "resume" and (b["options"].get("adaptive") or b["options"].get("skip_time")):
            continue
        yield s
    if scn["mode"] == "resume":
        if scn["N"] > 2:
            s = copy.deepcopy(scn)
            s["N"] = max(2, scn["N"] // 2)
            s["N1"] = min(scn["N1"], s["N"] - 1)
            yield s
        if scn["N1"] > 1:
            yield base.with_path(scn, ["N1"], 1)
