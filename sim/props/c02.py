"""C02 - each step solves the discretised TDGL equation on the physical branch.

Call-seam invariant on reached states (not the whole per-site input space): every call of
the documented static method in every simulated run is checked against eqs. z, w, quad-2,
quad-root, psi-sol of docs/background.rst, including refusal <-> negative discriminant."""
from .. import scen
from ..checkers import C02Update, C10Refresh
from ..common import substream
from . import base

ID = "C02"
LEVEL = "exploration"
RULE = (
    "every call of TDGLSolver.solve_for_psi_squared made by Engine-A runs of a swarm of workloads (gamma in {0,0.1,1,10}, u, "
    "epsilon in [-1,1] constant/spatial/time-dependent, dt_init over 1e-6..10, pinned zeros, strong drives, screening, "
    "injected refusals excluded), including that its epsilon, gamma, u and covariant Laplacian are the declared ones for the time of the step; a run is non-trivial when at least 3 calls were checked; distinct = distinct scenario digests"
)
LIFECYCLES = {"p_prior": 0.07, "p_metres": 0.08, "p_reoriented": 0.04, "p_guest": 0.15}  # shared object life cycles (scen.add_lifecycles) with their default rates
BUDGET = {"quick": {"runs": 700, "chunk": 10}, "thorough": {"runs": 120000, "chunk": 20}}
COMPONENTS = {"real": ["TDGLSolver.solve_for_psi_squared and everything that feeds it (update, operators, drives)"], "stub": ["wall clock", "validator RNG (seeded)"]}
ASSUMPTIONS = ["The quantifier of C02 is the whole per-site input space; this check decides the property on the states reached by simulated runs only."]


def gen(seed, idx, tier):
    scn = _gen(seed, idx, tier)
    rg = substream(seed, idx, "c02-guest-inside-psi-update")
    if rg.random() < 0.12 and not scn.get("guests") and not scn.get("seed_phase") and not scn.get("reload_phase"):
        # another simulation of the same device (other field / currents / disorder) does its psi updates INSIDE a
        # psi update of the run: at the n-th line executed within the update of psi, whatever helper it belongs to
        steps_ = max(1, min(int(scn["meta"].get("steps", 5)), 8))
        what = {"mode": "other-field", "field": {"kind": "const", "B": scen.r3(rg.choice([0.4, -0.9, 1.5]) * scen.FIELD_FACTOR[scn["options"].get("field_units", "mT")])}, "steps": rg.choice([1, 2]), "save_every": 100, "epsilon": {"kind": "const", "v": rg.choice([0.3, 0.8, -0.5])}}
        if scn["drive"].get("currents") is not None:
            what["currents_scale"] = rg.choice([3.5, -1.0, 0.3])
        scn["guests"] = [{"at": {"point": "line", "stage": "S", "func": "*", "within": "psi", "ordinal": rg.randint(2, 22) + 24 * rg.randint(0, steps_ - 1)}, "what": what}]
    return scn


def _gen(seed, idx, tier):
    rnd = substream(seed, idx, "c02")
    flavour = rnd.choice(["generic", "generic", "strong", "tinydt", "bigdt", "screen", "randinit", "randinit"])
    p = dict(refuse=0.2, steps=(3, 20))
    if flavour == "strong":
        p.update(dt_choices=[0.05, 0.2, 1.0], adaptive=True)
    elif flavour == "tinydt":
        p.update(dt_choices=[1e-6, 1e-5], steps=(3, 8))
    elif flavour == "bigdt":
        p.update(dt_choices=[1.0, 10.0], adaptive=True, steps=(2, 6))
    elif flavour == "screen":
        p.update(screening=True, steps=(2, 6), n_terminals=0, field_kinds=("const", "ramp"))
    scn = scen.gen_physics(rnd, **p)
    scn["meta"]["flavour"] = flavour
    if rnd.random() < 0.06:
        # a step that has no solution only under the contacts: terminals left free (terminal_psi=None) on a
        # box with contacts at its two ends, epsilon = -1 there and 1 in between, one large time step
        scn["device"]["film"] = {"kind": "box", "w": scn["device"]["film"].get("w", 5.13), "h": scn["device"]["film"].get("h", 3.07), "npts": 24}
        scn["device"]["holes"] = []
        scn["device"]["probes"] = None
        scn["device"]["terminals"] = [{"name": "source", "side": "left", "span": [0.112, 0.887], "depth": 0.3}, {"name": "drain", "side": "right", "span": [0.113, 0.886], "depth": 0.3}]
        scn["device"]["layer"]["gamma"] = rnd.choice([10.0, 1.0])
        scn["options"]["terminal_psi"] = rnd.choice([None, None, 0.0])
        xi_ = scn["device"]["layer"]["xi"]
        scn["drive"]["epsilon"] = {"kind": "ends", "x0": scen.r3(0.5 * scn["device"]["film"]["w"] * xi_ - 0.35 * xi_), "lo": rnd.choice([-1.0, -0.5]), "hi": 1.0}
        scn["drive"]["currents"] = rnd.choice([None, {"kind": "const", "I": {"source": 1.0 * scen.CUR_FACTOR[scn["options"]["current_units"]], "drain": -1.0 * scen.CUR_FACTOR[scn["options"]["current_units"]]}}])
        scn["drive"]["field"] = {"kind": "zero"}
        dt_ = rnd.choice([10.0, 20.0, 50.0])
        scn["options"].update(dt_init=dt_, dt_max=max(dt_, scn["options"].get("dt_max", 0.1)), adaptive=rnd.random() < 0.5, solve_time=scen.r3(dt_ * rnd.randint(1, 3)), skip_time=0.0, include_screening=False)
        scn["faults"] = []
        scn["meta"]["flavour"] = "ends"
        return scn
    if rnd.random() < 0.15:
        # solver life cycle: solve() twice on the same TDGLSolver object; or an interrupt inside the
        # update followed by a resume (the abandoned step's side effects must not leak)
        if rnd.random() < 0.5:
            scn["solve_twice"] = True
        else:
            scn["options"]["pause_on_interrupt"] = True
            scn["observer"] = {"output": None, "answers": ["y", "y"]}
            scn["faults"] = scn.get("faults", []) + [{"kind": "sigint", "at": {"point": "line", "func": rnd.choice(["update", "adaptive_euler_step", "solve_for_observables"]), "ordinal": rnd.randint(10, 400), "stage": "S"}}]
        scn["meta"]["lifecycle"] = True
    if scn["device"]["terminals"] and rnd.random() < 0.25:
        # seeded from a (short) earlier run made with ANOTHER terminal value: the state entering the
        # first step does not carry terminal_psi on the terminal sites
        scn["seed_phase"] = {"terminal_psi": rnd.choice([None, 0.0, 0.5, 1.0]), "steps": rnd.randint(1, 3)}
    if flavour == "randinit":
        # seeded initial state through the public psi_init attribute: |psi| > 1, exact zeros, random phases
        scn["psi_init"] = {"seed": rnd.randrange(10**6), "amp": rnd.choice([0.5, 1.0, 1.5, 3.0]), "zeros": rnd.choice([0.0, 0.1, 0.5]), "phases": rnd.random() < 0.7}
    return scn


def psi_hook(spec):
    import numpy as np

    def hook(solver):
        rs = np.random.default_rng(spec["seed"])
        n = len(solver.psi_init)
        mag = spec["amp"] * rs.random(n)
        ph = rs.uniform(-np.pi, np.pi, n) if spec["phases"] else np.zeros(n)
        psi = mag * np.exp(1j * ph)
        psi[rs.random(n) < spec["zeros"]] = 0.0
        keep = np.asarray(solver.operators.fixed_sites, dtype=int) if solver.options.terminal_psi is not None else np.array([], dtype=int)
        old = solver.psi_init.copy()
        solver.psi_init = psi
        if len(keep):
            solver.psi_init[keep] = old[keep]

    return hook


def post(sim, h):
    from ..common import Violation

    V = []
    for st, step, name in sim.alias_violations[:1]:
        if st == "seed":
            V.append(Violation("state-mutated-in-place", f"the run wrote into '{name}' of the Solution it was seeded with: the record of the finished run it continues has been altered", quantity=name, seed=True))
            continue
        V.append(Violation("state-mutated-in-place", f"update {st}{step} modified the array of '{name}' it was handed in place: the reported psi^n is no longer the state the step started from", quantity=name))
    return V


def run(scn):
    import copy

    from ..common import Discard
    from ..engine import run_scenario

    ck = C02Update()
    seed_sol = None
    sim0 = None
    if scn.get("seed_phase"):
        s0 = copy.deepcopy(scn)
        s0.pop("seed_phase")
        s0["faults"] = []
        s0.pop("solve_twice", None)
        s0["options"]["terminal_psi"] = scn["seed_phase"]["terminal_psi"]
        s0["options"]["skip_time"] = 0.0
        s0["options"]["solve_time"] = scn["options"]["dt_init"] * scn["seed_phase"]["steps"]
        s0["observer"] = {"output": {"path": "seed.h5", "absolute": True}}
        sim0, h0 = run_scenario(s0)
        if h0.outcome != "solution":
            sim0.cleanup()
            raise Discard(f"seed run did not complete: {h0.outcome}")
        seed_sol = h0.solution
    try:
        return _run(scn, ck, seed_sol)
    finally:
        if sim0 is not None:
            sim0.cleanup()


def _run(scn, ck, seed_sol):
    # "the covariant Laplacian action" of the documented equation is the one for the vector potential in
    # force: the operator handed to every update is compared with the reference operator
    ck_ops = C10Refresh(check_expected=True, rebuild=False)
    return base.physics_run(
        scn,
        [ck, ck_ops],
        lambda h, c: ck.calls >= 3,
        lambda h: (scn["device"]["layer"]["gamma"], scn["meta"].get("flavour"), ck.refusals > 0),
        extra=lambda h, c: {"calls": ck.calls, "refusals": ck.refusals, "deadband": ck.deadband, "overflow_skipped": ck.overflow, "max_identity_rel": ck.max_id, "max_modsq_rel": ck.max_mod},
        psi_init_hook=psi_hook(scn["psi_init"]) if scn.get("psi_init") else None,
        seed_solution=seed_sol,
        post=post,
    )


def shrink(scn):
    yield from base.physics_shrinks(scn)


def evidence_extra(results):
    calls = sum(r["stats"].get("calls", 0) for r in results)
    ref = sum(r["stats"].get("refusals", 0) for r in results)
    return {"psi_update_calls_checked": calls, "natural_refusals_checked": ref, "deadband_cases": sum(r["stats"].get("deadband", 0) for r in results)}
