"""C14 - saved devices, meshes, solutions and parameters load back unchanged.

Simulated as durability of what runs produce: after a seeded Engine-A run (completed or
cancelled; None-valued options; drives given as dicts, closures, callable objects,
Parameters, composite and time-dependent trees) the scheduler issues a seeded sequence of
storage operations, then a simulated restart (only files survive) and read-back, and
compares deeply and independently (not with the library's allclose-based __eq__) with the
in-memory originals."""
import copy
import dataclasses
import os
import pickle

import numpy as np
from ..common import aeq  # noqa: E402

from .. import build as B
from .. import scen
from ..common import Discard, Violation, max_err, substream
from ..engine import run_scenario
from . import base, c16

ID = "C14"
LEVEL = "exploration"
RULE = (
    "Engine-A runs (completed / cancelled at a seeded step; options with None-able fields set to None; drives as dict, closure, "
    "callable object, Parameter, composite/time-dependent tree; devices with/without holes/terminals/probes, three unit systems) "
    "followed by a seeded sequence of storage operations {reload, copy, copy after the output file is gone, device to file +/- mesh, mesh to group "
    "+/- compress, pickle device, pickle parameters, use reloaded solution as seed}; non-trivial = at least 3 storage operations "
    "compared on a run with >= 2 frames; distinct = scenario digests"
)
LIFECYCLES = {}  # shared object life cycles (scen.add_lifecycles) with their default rates
BUDGET = {"quick": {"runs": 300, "chunk": 6}, "thorough": {"runs": 30000, "chunk": 10}}
COMPONENTS = {"real": ["Solution.to_hdf5/from_hdf5", "Device/Polygon/Layer/Mesh/EdgeMesh (de)serialisation", "Parameter/CompositeParameter pickling", "SolverOptions round trip", "seeding a run from a reloaded solution"], "stub": ["wall clock (simulated, so time_created is reproducible)"]}
ASSUMPTIONS = ["Only state produced by simulated runs is round-tripped; the quantifier over all devices/option combinations/expression trees is sampled, not covered."]

OPS = ["reload", "reload-step", "copy", "orphan-copy", "moved-save", "moved-save-inplace", "dynamics-h5", "main-def", "device-h5", "device-h5-nomesh", "mesh-h5", "mesh-h5-compressed", "pickle-device", "pickle-params", "seed-run", "equality", "device-edited"]
MESH_ARRAYS = ("sites", "elements", "boundary_indices", "areas", "dual_sites")
EDGE_ARRAYS = ("edges", "centers", "boundary_edge_indices", "directions", "edge_lengths", "dual_edge_lengths")


def gen(seed, idx, tier):
    rnd = substream(seed, idx, "c14")
    if rnd.random() < 0.012:
        # a device with a large mesh (12k-25k sites): offsets and indices beyond 16 bits
        lu = rnd.choice(scen.UNIT_LEN)
        dev = {
            "name": "big", "length_units": lu, "layer": scen.gen_layer(rnd, lu),
            "film": {"kind": "box", "w": scen.r3(rnd.choice([36.0, 40.0]) + rnd.uniform(0.1, 0.4)), "h": scen.r3(rnd.choice([26.0, 30.0]) + rnd.uniform(0.1, 0.4)), "npts": 200},
            "holes": [{"kind": "ellipse", "a": 3.0, "b": 2.0, "npts": 20, "c": [2.0, 1.0], "name": "hole0"}] if rnd.random() < 0.5 else [],
            "terminals": [], "probes": [[5.0, 5.0], [-5.0, 5.0]] if rnd.random() < 0.5 else None,
            "mesh": {"max_edge_length": rnd.choice([0.45, 0.5, 0.55]), "smooth": 0},
        }
        return {"mesh_only": True, "device": dev, "options": {}, "drive": {"field": {"kind": "zero"}}, "faults": [], "storage_ops": ["device-h5", "mesh-h5", "mesh-h5-compressed", "pickle-device", "device-h5-nomesh"]}
    scn = scen.gen_physics(rnd, steps=(2, 10), dt_choices=[1e-3, 0.01, 0.05], screening=rnd.random() < 0.15, refuse=0.0)
    T = scn["options"]["solve_time"]
    if rnd.random() < 0.5:
        B0 = scn["drive"]["field"].get("B", 0.1) * 0.5
        tree = c16.unify_shared(c16.gen_V(rnd, T, rnd.choice([1, 2, 3]), B0 or 0.1, "s" if rnd.random() < 0.4 else None), {})
        scn["drive"]["field"] = {"kind": "tree", "tree": tree}
    if scn["device"]["terminals"] and rnd.random() < 0.4:
        scn["options"]["terminal_psi"] = rnd.choice([None, None, 0.0, 1.0, {"re": 0.3, "im": 0.4}])
    scn["options"]["save_every"] = rnd.choice([1, 2, 3, 100])
    scn["observer"] = {"output": {"path": rnd.choice(["out.h5", "res/out.h5"]), "absolute": True}}
    if rnd.random() < 0.2:
        scn["faults"] = [{"kind": "sigint", "at": {"point": rnd.choice(["update.before", "update.after"]), "stage": "S", "step": rnd.randint(1, max(1, scn["meta"]["steps"] - 1))}}]
    ops = [rnd.choice(OPS) for _ in range(rnd.randint(3, 6))]
    cur_ = scn["drive"].get("currents")
    if cur_ is not None and cur_["kind"] in ("const", "const_callable") and rnd.random() < 0.3:
        # the bias current is a plain top-level function of the user's script (__main__); the name is
        # re-used for another function later in the session, before the file is read back
        cur_["kind"] = "main_def"
        cur_["name"] = "user_bias_current"
        ops = ops + ["main-def"]
    scn["storage_ops"] = ops
    return scn


# ------------------------------------------------------------------ deep comparisons
def cmp_arrays(a, b, what, exact=True, tol=1e-12):
    if a is None and b is None:
        return None
    if a is None or b is None:
        return f"{what}: one side is None"
    a = np.asarray(a)
    b = np.asarray(b)
    if a.shape != b.shape:
        return f"{what}: shape {a.shape} != {b.shape}"
    if a.dtype.kind != b.dtype.kind:
        return f"{what}: dtype {a.dtype} != {b.dtype}"
    if exact:
        if not aeq(a, b):
            return f"{what}: values differ (max |diff| {max_err(a, b):.3g})"
    elif a.size and float(np.max(np.abs(a - b))) > tol * (1 + float(np.max(np.abs(a)))):
        return f"{what}: values differ by {max_err(a, b):.3g}"
    return None


def cmp_mesh(m1, m2, exact=True):
    out = []
    if (m1 is None) != (m2 is None):
        return ["mesh: present on one side only"]
    if m1 is None:
        return out
    for n in MESH_ARRAYS:
        out.append(cmp_arrays(getattr(m1, n), getattr(m2, n), "mesh." + n, exact))
    for n in EDGE_ARRAYS:
        out.append(cmp_arrays(getattr(m1.edge_mesh, n), getattr(m2.edge_mesh, n), "edge_mesh." + n, exact))
    if m1.voronoi_polygons is not None and m2.voronoi_polygons is not None:
        if len(m1.voronoi_polygons) != len(m2.voronoi_polygons):
            out.append("voronoi polygon count differs")
        else:
            for i, (p, q) in enumerate(zip(m1.voronoi_polygons, m2.voronoi_polygons)):
                r = cmp_arrays(p, q, f"voronoi_polygons[{i}]", exact)
                if r:
                    out.append(r)
                    break
    return [o for o in out if o]


def cmp_polygon(p, q, what):
    out = []
    if p.name != q.name:
        out.append(f"{what}: name {p.name!r} != {q.name!r}")
    r = cmp_arrays(p.points, q.points, what + ".points")
    if r:
        out.append(r)
    if bool(p.mesh) != bool(q.mesh):
        out.append(f"{what}: mesh flag differs")
    return out


def cmp_device(d1, d2, with_mesh=True, exact_mesh=True):
    out = []
    if d1.name != d2.name or d1.length_units != d2.length_units:
        out.append("device name/length_units differ")
    for f in ("london_lambda", "coherence_length", "thickness", "conductivity", "u", "gamma", "z0"):
        if getattr(d1.layer, f) != getattr(d2.layer, f):
            out.append(f"layer.{f}: {getattr(d1.layer, f)!r} != {getattr(d2.layer, f)!r}")
    out += cmp_polygon(d1.film, d2.film, "film")
    if len(d1.holes) != len(d2.holes):
        out.append("number of holes differs")
    else:
        for a, b in zip(sorted(d1.holes, key=lambda p: p.name), sorted(d2.holes, key=lambda p: p.name)):
            out += cmp_polygon(a, b, "hole")
    if len(d1.terminals) != len(d2.terminals):
        out.append("number of terminals differs")
    else:
        for a, b in zip(sorted(d1.terminals, key=lambda p: p.name), sorted(d2.terminals, key=lambda p: p.name)):
            out += cmp_polygon(a, b, "terminal")
    r = cmp_arrays(d1.probe_points, d2.probe_points, "probe_points")
    if r:
        out.append(r)
    if with_mesh:
        out += cmp_mesh(d1.mesh, d2.mesh, exact=exact_mesh)
    return out


def cmp_options(o1, o2):
    out = []
    a, b = dataclasses.asdict(o1), dataclasses.asdict(o2)
    for k in a:
        va, vb = a[k], b.get(k, "<missing>")
        va = getattr(va, "value", va)
        vb = getattr(vb, "value", vb)
        if k == "sparse_solver":
            va, vb = str(va).lower(), str(vb).lower()
        if va is None or vb is None:
            if va is not vb:
                out.append(f"options.{k}: {va!r} != {vb!r}")
        elif va != vb or (type(va) in (bool, np.bool_)) != (type(vb) in (bool, np.bool_)):
            out.append(f"options.{k}: {va!r} != {vb!r}")
    return out


def eval_drive(sol, device, T):
    """Evaluate the three stored callables at seeded points/times."""
    rs = np.random.default_rng(11)
    x, y = rs.uniform(-1, 1, 6), rs.uniform(-1, 1, 6)
    z = np.zeros(6)
    res = {}
    A = sol.applied_vector_potential
    td = bool(getattr(A, "time_dependent", False))
    res["A.time_dependent"] = td
    for t in (0.0, 0.41 * T, T):
        kw = {"t": t} if td else {}
        res[f"A({t:.3g})"] = np.asarray(A(x, y, z, **kw), dtype=float)
        tc = sol.terminal_currents
        res[f"I({t:.3g})"] = None if tc is None else {k: float(v) for k, v in sorted((tc(t) if callable(tc) else tc).items())}
        eps = sol.disorder_epsilon
        if callable(eps):
            import inspect

            spec = inspect.getfullargspec(eps)
            kw2 = {"t": t} if "t" in spec.kwonlyargs else {}
            pts = np.stack([x, y], axis=1)
            if (spec.kwonlydefaults or {}).get("vectorized", False):
                res[f"eps({t:.3g})"] = np.asarray(eps(pts, **kw2), dtype=float)
            else:
                try:
                    res[f"eps({t:.3g})"] = np.array([float(eps(p, **kw2)) for p in pts])
                except TypeError:
                    # the solver's own wrapper of a constant epsilon is vectorised without saying so
                    res[f"eps({t:.3g})"] = np.asarray(eps(pts, **kw2), dtype=float)
        else:
            res[f"eps({t:.3g})"] = float(eps)
    return res


def cmp_eval(e1, e2):
    out = []
    for k in e1:
        a, b = e1[k], e2.get(k)
        if isinstance(a, np.ndarray):
            r = cmp_arrays(a, b, k)
            if r:
                out.append(r)
        elif a != b:
            out.append(f"{k}: {a!r} != {b!r}")
    return out


def cmp_solution(orig_eval, orig, re, frames, T):
    """re: reloaded solution; frames: what the writer was handed (ground truth of the data)."""
    out = []
    out += cmp_options(orig.options, re.options)
    out += cmp_device(orig.device, re.device)
    if tuple(orig.data_range) != tuple(re.data_range):
        out.append(f"data_range {orig.data_range} != {re.data_range}")
    for attr in ("field_units", "current_units", "total_seconds", "time_created"):
        if getattr(orig, attr) != getattr(re, attr):
            out.append(f"{attr}: {getattr(orig, attr)!r} != {getattr(re, attr)!r}")
    for fr in frames:
        try:
            re.solve_step = fr["number"]
        except Exception as e:
            out.append(f"loading recorded step {fr['number']} raised {type(e).__name__}: {str(e)[:60]}")
            break
        d = re.tdgl_data
        for name, arr in fr["data"].items():
            r = cmp_arrays(arr, getattr(d, name), f"step {fr['number']} {name}")
            if r:
                out.append(r)
        if int(d.state["step"]) != fr["step"] or float(d.state["time"]) != fr["time"]:
            out.append(f"step {fr['number']}: state {dict(d.state)} != (step {fr['step']}, time {fr['time']})")
    for name in ("dt", "time", "mu", "theta", "screening_iterations"):
        r = cmp_arrays(getattr(orig.dynamics, name), getattr(re.dynamics, name), "dynamics." + name)
        if r:
            out.append(r)
    r = cmp_arrays(orig.times, re.times, "times")
    if r:
        out.append(r)
    try:
        out += cmp_eval(orig_eval, eval_drive(re, re.device, T))
    except Exception as e:
        out.append(f"evaluating the reloaded drive raised {type(e).__name__}: {str(e)[:80]}")
    return out


def run_mesh_only(scn):
    import shutil
    import tempfile

    import h5py
    import tdgl
    from tdgl.finite_volume.mesh import Mesh

    from ..common import digest_arrays, digest_obj

    dev = B.build_device(scn["device"])
    B._DEVICE_CACHE.pop(digest_obj(scn["device"]), None)  # do not keep 20k-site meshes in the worker
    work = tempfile.mkdtemp(prefix="tdglsim-c14-")
    V = []
    done = 0
    try:
        for j, op in enumerate(scn["storage_ops"]):
            diffs = []
            if op in ("device-h5", "device-h5-nomesh"):
                p2 = os.path.join(work, f"dev{j}.h5")
                dev.to_hdf5(p2, save_mesh=(op == "device-h5"))
                d2 = tdgl.Device.from_hdf5(p2)
                diffs = cmp_device(dev, d2, with_mesh=(op == "device-h5"))
            elif op in ("mesh-h5", "mesh-h5-compressed"):
                p2 = os.path.join(work, f"mesh{j}.h5")
                with h5py.File(p2, "w") as f:
                    dev.mesh.to_hdf5(f.create_group("m"), compress=(op != "mesh-h5"))
                with h5py.File(p2, "r") as f:
                    m2 = Mesh.from_hdf5(f["m"])
                diffs = cmp_mesh(dev.mesh, m2, exact=(op == "mesh-h5"))
            elif op == "pickle-device":
                diffs = cmp_device(dev, pickle.loads(pickle.dumps(dev)))
            done += 1
            if diffs:
                V.append(Violation("roundtrip-" + op, f"{op} ({len(dev.mesh.sites)} sites): " + "; ".join(diffs[:3]), op=op, first=diffs[0].split(":")[0], sites=len(dev.mesh.sites)))
    finally:
        shutil.rmtree(work, ignore_errors=True)
    n = len(dev.mesh.sites)
    return {
        "digest": digest_obj(scn), "outcome": "mesh-only", "exc": None, "violations": [dict(v) for v in V], "nontrivial": done >= 3,
        "sig": ("mesh-only", n > 11000, bool(scn["device"]["holes"]), scn["device"]["probes"] is not None),
        "fingerprint": digest_arrays(dev.mesh.sites, dev.mesh.elements, dev.mesh.areas),
        "stats": {"steps": 0, "sim_time": 0.0, "probes": {"large_mesh": 1}, "faults": [], "attempts": 0, "screen_iters": 0, "sites": n, "storage_ops": done},
        "discard": None,
    }


def run(scn):
    if scn.get("mesh_only"):
        return run_mesh_only(scn)
    import cloudpickle
    import h5py
    import tdgl
    from tdgl.finite_volume.mesh import Mesh

    sim, h = run_scenario(scn)
    sims = [sim]
    try:
        if h.outcome != "solution":
            raise Discard(f"run ended as {h.outcome}")
        sol = h.solution
        T = scn["options"]["solve_time"]
        frames = [fr for fr in h.frames if fr["completed"]]
        V = []
        tp = scn["options"].get("terminal_psi", 0.0)
        where = dict(terminal_psi_none=tp is None and "terminal_psi" in scn["options"], cancelled=bool(h.fire_info), field=scn["drive"]["field"]["kind"])
        orig_eval = eval_drive(sol, sol.device, T)
        path = h.out_path
        work = os.path.dirname(path)
        done = 0

        def report(op, diffs):
            if diffs:
                V.append(Violation("roundtrip-" + op, f"{op}: " + "; ".join(diffs[:3]) + (f" (+{len(diffs) - 3} more)" if len(diffs) > 3 else ""), op=op, first=diffs[0].split(":")[0], **where))

        for j, op in enumerate(scn["storage_ops"]):
            try:
                if op in ("reload", "reload-step"):
                    re = tdgl.Solution.from_hdf5(path) if op == "reload" else tdgl.Solution.from_hdf5(path, solve_step=0)
                    report(op, cmp_solution(orig_eval, sol, re, frames, T))
                elif op in ("copy", "copy-nomesh"):
                    p2 = os.path.join(work, f"copy{j}.h5")
                    sol.to_hdf5(p2, save_mesh=(op == "copy"))
                    re = tdgl.Solution.from_hdf5(p2)
                    if op == "copy":
                        report(op, cmp_solution(orig_eval, sol, re, frames, T))
                    else:
                        diffs = cmp_options(sol.options, re.options) + cmp_device(sol.device, re.device, with_mesh=False)
                        if re.device.mesh is None:
                            diffs.append("device of a solution saved without mesh has no mesh although the file's mesh group exists")
                        report(op, diffs)
                elif op == "orphan-copy":
                    # the Solution object outlives its output file (a run without output path whose
                    # temporary directory is gone): saving writes the state held in memory
                    held = sol.tdgl_data
                    held_dyn = sol.dynamics
                    hidden = path + ".hidden"
                    os.rename(path, hidden)
                    try:
                        p2 = os.path.join(work, f"orphan{j}.h5")
                        sol.to_hdf5(p2)
                        re = tdgl.Solution.from_hdf5(p2)
                        diffs = cmp_options(sol.options, re.options) + cmp_device(sol.device, re.device)
                        got = re.tdgl_data
                        for name in ("psi", "mu", "supercurrent", "normal_current", "applied_vector_potential", "induced_vector_potential", "epsilon"):
                            r = cmp_arrays(getattr(held, name), getattr(got, name), f"held step {name}")
                            if r:
                                diffs.append(r)
                        if dict(held.state) != dict(got.state):
                            diffs.append(f"held step state {dict(held.state)} != {dict(got.state)}")
                        for name in ("dt", "time", "mu", "theta", "screening_iterations"):
                            r = cmp_arrays(getattr(held_dyn, name), getattr(re.dynamics, name), "dynamics." + name)
                            if r:
                                diffs.append(r)
                        diffs += cmp_eval(orig_eval, eval_drive(re, re.device, T))
                        report(op, diffs)
                    finally:
                        os.rename(hidden, path)
                elif op in ("moved-save", "moved-save-inplace"):
                    # the loaded solution's device is moved in place (Device.translate / the translation()
                    # context manager of a scanning workflow) and the solution is saved again: what is
                    # read back is the moved device, mesh included
                    import shutil

                    p2 = os.path.join(work, f"moved{j}.h5")
                    if op == "moved-save-inplace":
                        shutil.copyfile(path, p2)
                        re = tdgl.Solution.from_hdf5(p2)
                    else:
                        re = tdgl.Solution.from_hdf5(path)
                    xi_ = float(scn["device"]["layer"]["xi"])
                    re.device.translate(2.5 * xi_, -1.25 * xi_, inplace=True)
                    if op == "moved-save-inplace":
                        re.to_hdf5()
                    else:
                        re.to_hdf5(p2)
                    re2 = tdgl.Solution.from_hdf5(p2)
                    diffs = cmp_device(re.device, re2.device) + cmp_options(re.options, re2.options)
                    for name in ("psi", "mu", "supercurrent", "normal_current", "induced_vector_potential"):
                        r = cmp_arrays(getattr(re.tdgl_data, name), getattr(re2.tdgl_data, name), f"moved {name}")
                        if r:
                            diffs.append(r)
                    report(op, diffs)
                elif op == "main-def":
                    cur_ = scn["drive"].get("currents")
                    if cur_ is None or cur_["kind"] != "main_def":
                        done += 1
                        continue
                    want_I = dict(cur_["I"])
                    # later in the same session the name is bound to another function
                    B.define_in_main(cur_["name"], {k: 3.0 * v + 1.0 for k, v in want_I.items()})
                    re = tdgl.Solution.from_hdf5(path)
                    got_I = re.terminal_currents(0.0) if callable(re.terminal_currents) else re.terminal_currents
                    diffs = []
                    if {k: float(v) for k, v in dict(got_I).items()} != {k: float(v) for k, v in want_I.items()}:
                        diffs.append(f"terminal_currents of the solution read back evaluates to {dict(got_I)} where the saved run used {want_I} (the function is a top-level def of __main__ whose name was re-used afterwards)")
                    report(op, diffs)
                elif op == "dynamics-h5":
                    # the per-step records saved on their own (DynamicsData.to_hdf5 into a group) and read back
                    from tdgl.solution.data import DynamicsData

                    p2 = os.path.join(work, f"dyn{j}.h5")
                    dyn = sol.dynamics
                    with h5py.File(p2, "w") as f:
                        dyn.to_hdf5(f.create_group("dynamics"))
                    with h5py.File(p2, "r") as f:
                        d2 = DynamicsData.from_hdf5(f["dynamics"])
                    diffs = []
                    for name in ("dt", "time", "mu", "theta", "screening_iterations"):
                        a_, b_ = getattr(dyn, name), getattr(d2, name)
                        if (a_ is None) != (b_ is None):
                            diffs.append(f"dynamics.{name}: {'None' if a_ is None else 'array'} saved, {'None' if b_ is None else 'array'} read back")
                        elif a_ is not None:
                            r = cmp_arrays(a_, b_, "dynamics." + name)
                            if r:
                                diffs.append(r)
                    report(op, diffs)
                elif op in ("device-h5", "device-h5-nomesh"):
                    p2 = os.path.join(work, f"dev{j}.h5")
                    sol.device.to_hdf5(p2, save_mesh=(op == "device-h5"))
                    d2 = tdgl.Device.from_hdf5(p2)
                    diffs = cmp_device(sol.device, d2, with_mesh=(op == "device-h5"))
                    if op == "device-h5-nomesh" and d2.mesh is not None:
                        diffs.append("mesh present although saved without mesh")
                    if op == "device-h5" and not (d2 == sol.device):
                        diffs.append("library __eq__ says the reloaded device differs")
                    report(op, diffs)
                elif op in ("mesh-h5", "mesh-h5-compressed"):
                    p2 = os.path.join(work, f"mesh{j}.h5")
                    with h5py.File(p2, "w") as f:
                        sol.device.mesh.to_hdf5(f.create_group("m"), compress=(op != "mesh-h5"))
                    with h5py.File(p2, "r") as f:
                        m2 = Mesh.from_hdf5(f["m"])
                    # a mesh restored from stored arrays equals one recomputed from its triangulation
                    report(op, cmp_mesh(sol.device.mesh, m2, exact=(op == "mesh-h5")))
                elif op == "pickle-device":
                    d2 = pickle.loads(pickle.dumps(sol.device))
                    report(op, cmp_device(sol.device, d2))
                elif op == "pickle-params":
                    class Holder:
                        pass

                    hld = Holder()
                    hld.applied_vector_potential = cloudpickle.loads(cloudpickle.dumps(sol.applied_vector_potential))
                    hld.terminal_currents = cloudpickle.loads(cloudpickle.dumps(sol.terminal_currents))
                    hld.disorder_epsilon = cloudpickle.loads(cloudpickle.dumps(sol.disorder_epsilon))
                    diffs = cmp_eval(orig_eval, eval_drive(hld, None, T))
                    if isinstance(sol.applied_vector_potential, tdgl.Parameter) and not (hld.applied_vector_potential == sol.applied_vector_potential):
                        diffs.append("pickled parameter does not compare equal")
                    report(op, diffs)
                elif op == "device-edited":
                    # the caller goes on to the next point of a sweep and edits the Device object it solved with, in
                    # place (material parameters, the name, a hole moved, a probe moved): the Solution it already
                    # holds is the record of the earlier run and still equals its own file
                    dev_user = h.device
                    lay = dev_user.layer
                    saved = {k_: getattr(lay, k_) for k_ in ("thickness", "london_lambda", "gamma", "u", "z0")}
                    saved_name = dev_user.name
                    pp0 = None if dev_user.probe_points is None else np.array(dev_user.probe_points, copy=True)
                    hole_pts = [np.array(hh.points, copy=True) for hh in dev_user.holes]
                    snap = sol.device.copy(with_mesh=False)
                    try:
                        lay.thickness = saved["thickness"] * 2.5
                        lay.london_lambda = saved["london_lambda"] * 0.5
                        lay.gamma = saved["gamma"] + 1.0
                        lay.u = saved["u"] * 2
                        lay.z0 = saved["z0"] + 0.5 * float(lay.coherence_length)
                        dev_user.name = saved_name + "-next"
                        if pp0 is not None:
                            dev_user.probe_points[:] = pp0 * 0.5
                        for hh in dev_user.holes:
                            hh.points[:] = hh.points + 1e-3 * float(lay.coherence_length)
                        diffs = ["the Solution changed when the caller's Device was edited in place afterwards: " + d_ for d_ in cmp_device(snap, sol.device, with_mesh=False)]
                        re = tdgl.Solution.from_hdf5(path)
                        diffs += cmp_device(sol.device, re.device, with_mesh=False)
                        report(op, diffs)
                    finally:
                        for k_, v_ in saved.items():
                            setattr(lay, k_, v_)
                        dev_user.name = saved_name
                        if pp0 is not None:
                            dev_user.probe_points[:] = pp0
                        for hh, p0_ in zip(dev_user.holes, hole_pts):
                            hh.points[:] = p0_
                elif op == "equality":
                    re = tdgl.Solution.from_hdf5(path)
                    re.solve_step = sol.solve_step
                    if not (re == sol):
                        report(op, ["a solution read back from its own file does not compare equal to the original (library __eq__)"])
                elif op == "seed-run":
                    re = tdgl.Solution.from_hdf5(path)
                    s2 = copy.deepcopy(scn)
                    s2["faults"] = []
                    s2["options"]["skip_time"] = 0.0
                    s2["options"]["solve_time"] = scn["options"]["dt_init"] * 2
                    s2["observer"] = {"output": None}
                    sim_a, ha = run_scenario(s2, seed_solution=re)
                    sims.append(sim_a)
                    sim_b, hb = run_scenario(s2, seed_solution=sol)
                    sims.append(sim_b)
                    diffs = []
                    if ha.outcome != hb.outcome:
                        diffs.append(f"run seeded with the reloaded solution ended as {ha.outcome} {ha.exc}, seeded with the original as {hb.outcome}")
                    elif ha.outcome == "solution":
                        for ua, ub in zip(ha.stages["S"], hb.stages["S"]):
                            for name in ("psi", "mu"):
                                r = cmp_arrays(ua["out"][name], ub["out"][name], f"seeded step {ua['step']} {name}")
                                if r:
                                    diffs.append(r)
                    report(op, diffs)
                done += 1
            except Discard:
                raise
            except Exception as e:
                import traceback

                tb = traceback.extract_tb(e.__traceback__)
                inlib = [f for f in tb if "/tdgl/" in f.filename]
                if not inlib:
                    raise
                V.append(Violation("roundtrip-raised", f"{op} raised {type(e).__name__}: {str(e)[:100]} (at {os.path.basename(inlib[-1].filename)}:{inlib[-1].name})", op=op, exc=type(e).__name__, **where))
        seen = set()
        Vd = [v for v in V if not ((v["rule"], v["where"].get("first")) in seen or seen.add((v["rule"], v["where"].get("first"))))]
        return base.summarize(scn, h, Vd, done >= 3 and len(frames) >= 2, (tuple(sorted(set(scn["storage_ops"]))), where["terminal_psi_none"], where["cancelled"], where["field"], (scn["drive"].get("currents") or {}).get("kind"), (scn["drive"].get("epsilon") or {}).get("kind")), extra={"storage_ops": done})
    finally:
        for s in sims:
            s.cleanup()


def shrink(scn):
    if scn.get("mesh_only"):
        ops = scn["storage_ops"]
        if len(ops) > 1:
            for o2 in base.drop_each(ops):
                yield base.with_path(scn, ["storage_ops"], o2)
        return
    ops = scn["storage_ops"]
    if len(ops) > 1:
        for o2 in base.drop_each(ops):
            yield base.with_path(scn, ["storage_ops"], o2)
    for s in base.physics_shrinks(scn):
        if s["observer"].get("output") is None:
            continue
        yield s
    if scn["drive"]["field"]["kind"] == "tree":
        for s in c16.shrink(scn):
            if s["observer"].get("output") is not None:
                yield s


def evidence_extra(results):
    return {"storage_operations_compared": sum(r["stats"].get("storage_ops", 0) for r in results)}
