"""C12 - time steps follow the documented adaptive rule and its bounds."""
from .. import scen
from ..checkers import C12TimeStep
from ..common import Violation, substream
from . import base

ID = "C12"
LEVEL = "exploration"
RULE = (
    "Engine-A runs over (dt_init 1e-6..10, dt_max, window 1..20, multiplier in (0,1), max retries 0..10), adaptive on/off, "
    "thermalisation, drives strong enough for natural refusals, injected refusals on chosen (step, attempt) pairs and refusal bursts "
    "for retry exhaustion; the dt-controller reference model is replayed on the observed history; non-trivial = at least one refusal "
    "or one change of the proposed dt; distinct = scenario digests"
)
LIFECYCLES = {"p_prior": 0.15, "p_metres": 0.08, "p_guest": 0.15}  # shared object life cycles (scen.add_lifecycles) with their default rates
BUDGET = {"quick": {"runs": 700, "chunk": 10}, "thorough": {"runs": 120000, "chunk": 20}}
COMPONENTS = {"real": ["TDGLSolver.update / adaptive_euler_step / dt controller", "Runner"], "stub": ["wall clock", "refusals injected at the solve_for_psi_squared seam (buggify)"]}


def gen(seed, idx, tier):
    rnd = substream(seed, idx, "c12")
    adaptive = rnd.random() < 0.8
    scn = scen.gen_physics(
        rnd,
        adaptive=adaptive,
        screening=rnd.random() < 0.06,
        steps=(4, 40),
        dt_choices=[1e-6, 1e-4, 1e-3, 0.01, 0.05, 0.2, 1.0, 10.0],
        refuse=0.0,
    )
    o = scn["options"]
    o["adaptive_window"] = rnd.choice([1, 2, 3, 5, 10, 20])
    o["max_solve_retries"] = rnd.choice([0, 1, 2, 5, 10])
    o["adaptive_time_step_multiplier"] = rnd.choice([0.25, 0.5, 0.1, 0.9, 0.75])
    steps = scn["meta"]["steps"]
    faults = []
    mode = rnd.choice(["none", "single", "single", "multi", "burst"])
    if mode in ("single", "multi"):
        for _ in range(1 if mode == "single" else rnd.randint(2, 4)):
            faults.append({"kind": "refuse", "at": {"stage": rnd.choice(["S", "S", "T"]) if o["skip_time"] else "S", "step": rnd.randint(0, steps), "attempts": list(range(rnd.choice([1, 1, 2, 3]))), "iter": 0}})
    elif mode == "burst":
        # more refusals than the retry budget allows: exhaustion must raise
        faults.append({"kind": "refuse", "at": {"stage": "S", "step": rnd.randint(0, max(0, steps - 1)), "attempts": list(range(o["max_solve_retries"] + 3)), "iter": 0}})
    if adaptive and rnd.random() < 0.12:
        # a very small first step and a nearly static state: the documented rule floors the windowed
        # mean at 1e-10, so the proposal is min(1/2 (dt + dt_init 1e10), dt_max) = dt_max whenever
        # dt_max / dt_init < 5e9 (weak or absent drive, |psi|^2 changes by far less than 1e-6 per step)
        o["dt_init"] = rnd.choice([1e-9, 1e-8, 1e-7])
        o["dt_max"] = rnd.choice([0.01, 0.05, 0.1])
        o["adaptive_window"] = rnd.choice([1, 2, 3, 5])
        o["solve_time"] = scen.r3(o["dt_max"] * rnd.randint(3, 12))
        if o.get("skip_time"):
            o["skip_time"] = scen.r3(o["dt_max"] * rnd.randint(1, 2))
        scn["drive"]["currents"] = None
        scn["drive"]["epsilon"] = None
        f = scn["drive"]["field"]
        if rnd.random() < 0.5:
            scn["drive"]["field"] = {"kind": "zero"}
        elif "B" in f:
            f["B"] = f["B"] * 1e-4
        if scn["device"]["terminals"]:
            o["terminal_psi"] = rnd.choice([None, 1.0])
        faults = []
        mode = "tiny-dt-init"
    scn["faults"] = faults
    scn["meta"]["mode"] = mode
    if rnd.random() < 0.2 and not o["skip_time"]:
        # seeded from an adaptive run whose step had grown: the controller of the new run must
        # start from ITS dt_init and respect ITS dt_max / adaptive flag
        scn["seed_phase"] = {"dt_init": o["dt_init"], "dt_max": scen.r3(o["dt_init"] * rnd.choice([10.0, 50.0])), "steps": rnd.randint(4, 12), "window": 1}
        if scn["drive"]["field"]["kind"] in ("ramp", "pw", "sin", "wave"):
            scn["drive"]["field"] = {"kind": "const", "B": scn["drive"]["field"]["B"]}
    return scn


def post(sim, h):
    """History checks: retry exhaustion raises at the modelled attempt and nothing is executed or recorded afterwards."""
    V = []
    o = sim.scn["options"]
    adaptive = o.get("adaptive", True)
    budget = o.get("max_solve_retries", 10)
    for st in ("T", "S"):
        ups = h.stages[st]
        for i, u in enumerate(ups):
            if u["out"] is not None:
                # every accepted step: number of consecutive refusals within one euler step never exceeded the budget
                run_len = 0
                for dt_a, refused, inj, _it in u["attempts"]:
                    if refused:
                        run_len += 1
                        limit = (budget + 1) if adaptive else 0
                        if run_len > limit:
                            V.append(Violation("retry-budget", f"step {u['step']} ({st}) continued after {run_len} refusals (max_solve_retries={budget}, adaptive={adaptive})", adaptive=adaptive))
                            break
                    else:
                        run_len = 0
                continue
            # unfinished update: it must be the last one and the run must have raised
            refused_tail = 0
            for dt_a, refused, inj, _it in reversed(u["attempts"]):
                if refused:
                    refused_tail += 1
                else:
                    break
            if u["attempts"] and refused_tail:
                exhausted = (not adaptive) or refused_tail >= budget + 2
                if exhausted:
                    h.probe("retry_exhaustion")
                    if not h.outcome.startswith("raised:RuntimeError"):
                        V.append(Violation("exhaustion-no-error", f"retries exhausted at step {u['step']} ({st}) but the run ended with {h.outcome}", adaptive=adaptive))
                    if i != len(ups) - 1 or (st == "T" and h.stages["S"]):
                        V.append(Violation("step-after-exhaustion", f"a step was executed after retry exhaustion at step {u['step']} ({st})"))
                elif h.outcome.startswith("raised:RuntimeError") and "failed to converge" in h.exc[1] and not base.injected(h.exc_obj):
                    V.append(
                        Violation(
                            "early-exhaustion",
                            f"step {u['step']} ({st}) raised after {refused_tail} consecutive refusals; with max_solve_retries={budget} the documented rule allows {budget + 1} retries",
                            adaptive=adaptive,
                            refusals=refused_tail,
                            budget=budget,
                        )
                    )
    return V


def run(scn):
    import copy

    from ..common import Discard
    from ..engine import run_scenario

    seed_sol = None
    sim0 = None
    if scn.get("seed_phase"):
        sp = scn["seed_phase"]
        s0 = copy.deepcopy(scn)
        s0.pop("seed_phase")
        s0["faults"] = []
        s0["options"].update(adaptive=True, dt_init=sp["dt_init"], dt_max=sp["dt_max"], adaptive_window=sp["window"], skip_time=0.0, solve_time=sp["dt_max"] * sp["steps"], max_solve_retries=10, adaptive_time_step_multiplier=0.25)
        s0["observer"] = {"output": {"path": "seed.h5", "absolute": True}}
        s0["max_updates"] = 60
        sim0, h0 = run_scenario(s0)
        if h0.outcome != "solution":
            sim0.cleanup()
            raise Discard(f"seed run did not complete: {h0.outcome}")
        seed_sol = h0.solution
    try:
        return _run(scn, seed_sol)
    finally:
        if sim0 is not None:
            sim0.cleanup()


def _run(scn, seed_sol):
    ck = C12TimeStep()
    return base.physics_run(
        scn,
        [ck],
        lambda h, c: ck.retries > 0 or ck.dt_changes > 0,
        lambda h: (scn["meta"].get("mode"), scn["options"]["adaptive_window"], ck.retries > 0, ck.dt_changes > 0),
        extra=lambda h, c: {"retries": ck.retries, "dt_changes": ck.dt_changes, "model_steps": ck.steps},
        post=post,
        seed_solution=seed_sol,
    )


def shrink(scn):
    yield from base.physics_shrinks(scn)
