"""C08 - results do not depend on the unit system used to state the problem (run level).

(a) twin runs: the same physical scenario stated in two unit systems drawn from
{um,nm,mm} x {mT,uT,T} x {uA,nA,mA}; the twin device gets the SAME dimensionless mesh object
(meshing a rescaled polygon gives a different triangulation, which would compare
discretisations, not units).  (b) absolute SI oracles on the recorded dimensionless inputs
of every run, so that a factor lost in both twins is still seen: flux per mesh triangle for
uniform fields, terminal flux density, screening prefactor."""
import copy
import os

import numpy as np
from ..common import aeq  # noqa: E402

from .. import build as B
from .. import refphys as R
from .. import scen, si
from ..checkers import C13Screening, get_ctx
from ..common import Discard, Violation, digest_obj, substream
from ..engine import run_scenario
from . import base

ID = "C08"
LEVEL = "exploration"
RULE = (
    "twin pairs: one physical scenario (uniform static / time-dependent fields, biased terminals, screening on/off) stated in two "
    "unit systems on the same dimensionless mesh object; dimensionless trajectories and physical outputs (sheet current density in "
    "A/m, field of the currents in T at fixed physical points, each read twice on the same Solution) compared to 1e-8 x 4^n capped at 1e-3 (mu up to its additive constant, psi up to one global phase); plus absolute SI oracles per run (2 pi flux/Phi_0 per mesh triangle, terminal flux "
    "density 4 I/(K0 L), screening kernel prefactor); non-trivial = the two unit systems differ and >= 3 updates were compared on a "
    "driven run; distinct = scenario digests"
)
LIFECYCLES = {}  # shared object life cycles (scen.add_lifecycles) with their default rates
BUDGET = {"quick": {"runs": 300, "chunk": 6}, "thorough": {"runs": 30000, "chunk": 10}}
COMPONENTS = {"real": ["unit handling via pint in TDGLSolver/Device/sources/Solution", "screening prefactor", "Solution.current_density"], "stub": ["wall clock"]}
ASSUMPTIONS = ["Run-level part only; unit conversion of post-processing (fields from currents) belongs to C20, which is not applicable to this technique."]
TOL = 1e-8  # at the first update; rounding differences may grow by the factor GROWTH per update, capped at CAP
GROWTH = 4.0
CAP = 1e-3


def convert(scn, lu, fu, cu):
    s = copy.deepcopy(scn)
    lu0, fu0, cu0 = scn["device"]["length_units"], scn["options"]["field_units"], scn["options"]["current_units"]
    fl = scen.LEN_FACTOR[lu] / scen.LEN_FACTOR[lu0]
    ff = scen.FIELD_FACTOR[fu] / scen.FIELD_FACTOR[fu0]
    fc = scen.CUR_FACTOR[cu] / scen.CUR_FACTOR[cu0]
    s["device"]["length_units"] = lu
    for k in ("xi", "lam", "d", "z0"):
        s["device"]["layer"][k] = scn["device"]["layer"].get(k, 0.0) * fl
    s["options"]["field_units"] = fu
    s["options"]["current_units"] = cu
    f = s["drive"]["field"]
    if "B" in f:
        f["B"] = f["B"] * ff
    if f.get("kind") == "loop":
        f["I"] = f["I"] * fc
    cur = s["drive"].get("currents")
    if cur is not None:
        for key in ("I", "I0", "I1"):
            if key in cur:
                cur[key] = {k: v * fc for k, v in cur[key].items()}
        if "values" in cur:
            cur["values"] = [{k: v * fc for k, v in d.items()} for d in cur["values"]]
    eps = s["drive"].get("epsilon")
    if eps is not None and "k" in eps:
        # epsilon(r) is a function of the physical position: keep the physical wave vector
        eps["k"] = [kk / fl for kk in eps["k"]]
    return s


def gen(seed, idx, tier):
    rnd = substream(seed, idx, "c08")
    screening = rnd.random() < 0.2
    scn = scen.gen_physics(
        rnd,
        screening=screening,
        steps=(3, 20) if not screening else (2, 5),
        dt_choices=[1e-3, 0.01, 0.02],
        field_kinds=("const", "const", "ramp", "pw", "zero", "loop", "wave"),
        eps_kinds=("none", "none", "spatial"),
        n_terminals=rnd.choice([0, 2, 2, 3]),
        n_probes=2,
        gamma=rnd.choice([0.0, 0.1, 1.0]),
    )
    rh = substream(seed, idx, "c08-huge-mesh")
    if rh.random() < 0.03 and not screening:
        # a mesh of more than 2^14 edges (5600+ sites): whatever evaluates the applied potential, the currents
        # or the phases in batches / blocks only does so for large problems; few steps, uniform field
        scn["device"]["film"] = {"kind": "box", "w": 12.1, "h": 12.2, "npts": 120}
        scn["device"]["holes"] = []
        scn["device"]["mesh"] = {"max_edge_length": rh.choice([0.3, 0.3, 0.25]), "smooth": 0}
        if scn["drive"]["field"]["kind"] not in ("const", "const_param", "plain"):
            scn["drive"]["field"] = {"kind": "const", "B": scn["drive"]["field"].get("B") or 0.2 * scen.FIELD_FACTOR[scn["options"]["field_units"]]}
        scn["options"]["dt_init"] = 1e-3  # cells of 0.3 xi: the explicit step must stay below its stability bound
        scn["options"]["dt_max"] = max(scn["options"].get("dt_max", 0.1), 1e-3) if scn["options"].get("adaptive") else 0.1
        scn["options"]["solve_time"] = scen.r3(scn["options"]["dt_init"] * 3)
        scn["options"]["skip_time"] = 0.0
        scn["meta"]["steps"] = 3
        scn["meta"]["huge_mesh"] = True
        scn.pop("device_history", None)
    if scn["options"].get("terminal_psi", 0.0) not in (0.0, None):
        # with a non-zero pinned value the additive constant of mu (left to rounding by the
        # singular Neumann solve) becomes physically relevant: not a statement about units
        scn["options"]["terminal_psi"] = rnd.choice([0.0, None])
    lu0, fu0, cu0 = scn["device"]["length_units"], scn["options"]["field_units"], scn["options"]["current_units"]
    while True:
        lu, fu, cu = rnd.choice(scen.UNIT_LEN), rnd.choice(scen.UNIT_FIELD), rnd.choice(scen.UNIT_CUR)
        if (lu, fu, cu) != (lu0, fu0, cu0):
            break
    if rnd.random() < 0.35:
        # extremes of the raw numbers: (mm, T, mA) makes them smallest, (nm, uT, nA) largest;
        # combined with a slowly varying field so that absolute thresholds on raw values matter
        lu, fu, cu = rnd.choice([("mm", "T", "mA"), ("nm", "uT", "nA"), ("mm", "T", "nA")])
        if (lu, fu, cu) == (lu0, fu0, cu0):
            lu, fu, cu = "um", "mT", "uA"
        if not screening and rnd.random() < 0.8:
            steps = scn["meta"]["steps"]
            rel = rnd.choice([1e-1, 1e-2, 1e-3, 1e-4])
            B0 = scn["drive"]["field"].get("B") or (0.3 * scen.FIELD_FACTOR[fu0])
            scn["drive"]["field"] = {"kind": "ramp", "B": B0, "tmin": 0.0, "tmax": scn["options"]["solve_time"], "initial": rnd.choice([1.0, 0.0]), "final": 1.0 + rel * steps}
            scn["meta"]["slow_rel"] = rel
    if rnd.random() < 0.35:
        scn["observer"] = {"output": {"path": "out.h5", "absolute": True}}  # a persistent file: post-run extraction
        scn["options"]["save_every"] = rnd.choice([1, 2, 5])
    scn["twin_units"] = [lu, fu, cu]
    scn["shared_options"] = rnd.random() < 0.3
    # the same physical displacement (stated in units of xi) of the meshed device in both unit systems
    return scen.maybe_moved(rnd, scen.maybe_restored(rnd, scn, 0.15), 0.12)


class SIInputs:
    """Absolute SI oracles on the dimensionless inputs the run recorded."""

    def __init__(self):
        self.checked = 0

    def on_step(self, sim, cur):
        c = get_ctx(sim)
        rm = c.rm
        V = []
        scn = sim.scn
        # terminal flux density in force: 4 I / (K0 L)
        I = B.current_at(scn["drive"].get("currents"), cur["time"])
        solver = sim.h.solver
        em = sim.h.device.mesh.edge_mesh
        bidx = np.asarray(em.boundary_edge_indices)
        mub = np.asarray(cur["mu_boundary"])
        if I and c.shares:
            names_balanced = abs(sum(I.values())) <= 1e-9 * max(abs(v) for v in I.values()) if any(I.values()) else True
            for name, t in c.shares.items():
                if not t["edges"] or not names_balanced:
                    continue
                L_m = t["length"] * c.xi * si.PREFIX[c.lu]
                want = 4 * I.get(name, 0.0) * si.PREFIX[c.cu] / (c.scales.K0 * L_m)
                pos = [int(np.where(bidx == e)[0][0]) for e in t["edges"]]
                got = mub[pos]
                ref = max(abs(want), max(abs(4 * v * si.PREFIX[c.cu] / (c.scales.K0 * L_m)) for v in I.values()))
                if np.any(np.abs(got - want) > si.SI_TOL * ref + 1e-300):
                    V.append(Violation("terminal-flux-SI", f"step {cur['step']}: boundary flux density on terminal {name!r} is {got[0]:.9g}, SI value 4 I/(K0 L) = {want:.9g}", terminal=name))
                    break
        self.checked += 1
        V += self.dynamic_flux(sim, cur)
        return V

    def _tri_setup(self, c):
        if getattr(self, "_tri", None) is None:
            rm = c.rm
            edge_index = {}
            for e, (i, j) in enumerate(rm.edges):
                edge_index[(int(i), int(j))] = (e, 1.0)
                edge_index[(int(j), int(i))] = (e, -1.0)
            idx = np.zeros((len(rm.elements), 3), dtype=int)
            sgn = np.zeros((len(rm.elements), 3))
            for t, tri in enumerate(rm.elements):
                for m, (a, b) in enumerate(((tri[0], tri[1]), (tri[1], tri[2]), (tri[2], tri[0]))):
                    idx[t, m], sgn[t, m] = edge_index[(int(a), int(b))]
            p = rm.sites[rm.elements]
            area = 0.5 * ((p[:, 1, 0] - p[:, 0, 0]) * (p[:, 2, 1] - p[:, 0, 1]) - (p[:, 2, 0] - p[:, 0, 0]) * (p[:, 1, 1] - p[:, 0, 1]))
            self._tri = (idx, sgn, area)
        return self._tri

    def on_update_start(self, sim, cur):
        return []

    def dynamic_flux(self, sim, cur):
        """Time-dependent uniform fields (scale(t) x ConstantField): the potential recorded by
        every update integrates around every triangle to 2 pi B(t) area / Phi_0."""
        f = sim.scn["drive"]["field"]
        if f["kind"] not in ("ramp", "pw", "sin") or "applied_vector_potential" not in cur["out"] or "gauge" in f:
            return []
        c = get_ctx(sim)
        tree = B.field_to_tree(f)
        scale_t = B.eval_tree(tree["l"], c.tctx, None, None, None, cur["time"])
        idx, sgn, area = self._tri_setup(c)
        A = np.asarray(cur["out"]["applied_vector_potential"])
        line = np.einsum("ij,ij->i", A, c.rm.evec)
        circ = np.sum(sgn * line[idx], axis=1)
        want = 2 * np.pi * (f["B"] * float(scale_t) * si.PREFIX[c.fu]) * area * (c.xi * si.PREFIX[c.lu]) ** 2 / si.PHI0
        ref = float(np.max(np.abs(want), initial=0.0))
        err = float(np.max(np.abs(circ - want), initial=0.0))
        if err > si.SI_TOL * ref + 1e-13:
            return [Violation("flux-per-triangle", f"step {cur['step']} t={cur['time']:.5g}: gauge phase around a mesh triangle differs from 2 pi flux(t)/Phi_0 by {err / (ref + 1e-300):.3g} relative", field_units=c.fu, length_units=c.lu)]
        return []

    def flux_per_triangle(self, sim, h):
        """Stored dimensionless applied potential integrates around every mesh triangle to
        2 pi x flux / Phi_0 (uniform fields)."""
        scn = sim.scn
        f = scn["drive"]["field"]
        if f["kind"] not in ("const", "const_param", "plain") or h.fixed is None or "applied_vector_potential" not in h.fixed:
            return []
        c = get_ctx(sim)
        rm = c.rm
        A = np.asarray(h.fixed["applied_vector_potential"])
        edge_index = {}
        for e, (i, j) in enumerate(rm.edges):
            edge_index[(int(i), int(j))] = (e, 1.0)
            edge_index[(int(j), int(i))] = (e, -1.0)
        line = np.einsum("ij,ij->i", A, rm.evec)  # A . e_ij per stored orientation
        B_T = f["B"] * si.PREFIX[c.fu]
        worst = 0.0
        for tri in rm.elements:
            p = rm.sites[tri]
            area = 0.5 * ((p[1, 0] - p[0, 0]) * (p[2, 1] - p[0, 1]) - (p[2, 0] - p[0, 0]) * (p[1, 1] - p[0, 1]))
            circ = 0.0
            for a, b in ((tri[0], tri[1]), (tri[1], tri[2]), (tri[2], tri[0])):
                e, sgn = edge_index[(int(a), int(b))]
                circ += sgn * line[e]
            want = 2 * np.pi * B_T * area * (c.xi * si.PREFIX[c.lu]) ** 2 / si.PHI0
            worst = max(worst, abs(circ - want) / (abs(want) + 1e-300)) if want != 0 else max(worst, abs(circ))
        if worst > si.SI_TOL:
            return [Violation("flux-per-triangle", f"gauge phase around a mesh triangle differs from 2 pi flux/Phi_0 by {worst:.3g} relative (B = {f['B']} {c.fu})", field_units=c.fu, length_units=c.lu)]
        return []


def traj(h):
    return [u for st in ("T", "S") for u in h.stages[st] if u["out"] is not None]


def run(scn):
    from . import c17

    if not c17.stable(scn):
        raise Discard("explicit-euler-unstable-dt")
    lu, fu, cu = scn["twin_units"]
    s1 = copy.deepcopy(scn)
    s1.pop("twin_units")
    s2 = convert(s1, lu, fu, cu)
    ck1, ck2 = SIInputs(), SIInputs()
    kern1 = C13Screening() if scn["options"]["include_screening"] else None
    sim1, h1 = run_scenario(s1, checkers=[ck1] + ([kern1] if kern1 else []))
    sims = [sim1]
    try:
        if h1.outcome.startswith("rejected"):
            raise Discard(f"rejected:{h1.exc[0]}:{h1.exc[1][:40]}")
        # some users re-use ONE SolverOptions instance and change its units in place for the second
        # statement of the problem: the first solution must keep its own units and outputs
        shared = scn.get("shared_options") and h1.solution is not None
        if shared:
            u_before = (h1.solution.field_units, h1.solution.current_units)
            K_before = h1.solution.current_density.to("A/m").magnitude.copy()
        sim2, h2 = run_scenario(s2, checkers=[ck2], mesh_from=(getattr(sim1, "base_mesh", None) if scn.get("device_moved") else h1.device.mesh), options_from=sim1.options if shared else None)
        sims.append(sim2)
        V = [v for v in sim1.violations if v["rule"] in ("terminal-flux-SI", "kernel-vs-direct")] + [v for v in sim2.violations if v["rule"] == "terminal-flux-SI"]
        V += ck1.flux_per_triangle(sim1, h1) + ck2.flux_per_triangle(sim2, h2)
        where = dict(units_a=[s1["device"]["length_units"], s1["options"]["field_units"], s1["options"]["current_units"]], units_b=[lu, fu, cu], screening=bool(scn["options"]["include_screening"]))
        where["changed"] = [n for n, a, b in zip(("length", "field", "current"), where["units_a"], where["units_b"]) if a != b]
        if shared:
            u_after = (h1.solution.field_units, h1.solution.current_units)
            if u_after != u_before:
                V.append(Violation("solution-units-changed", f"the first solution reported units {u_before}; after its options object was re-used with {where['units_b'][1:]} it reports {u_after}", **where))
            K_after = h1.solution.current_density.to("A/m").magnitude
            if not aeq(K_after, K_before):
                V.append(Violation("solution-output-changed", "the first solution's current density changed after its options object was re-used for another run", **where))
        if h2.outcome.startswith("rejected"):
            V.append(Violation("twin-rejected", f"the same problem stated in {where['units_b']} was rejected: {h2.exc}", **where))
        t1, t2 = traj(h1), traj(h2)
        n = min(len(t1), len(t2))
        compared = 0
        for a, b in zip(t1[:n], t2[:n]):
            # refusals (which screening iteration, how many) must coincide; the number of screening
            # iterations may differ only if the exit decision was a coin flip on the tolerance
            pa = [(x[3], x[2]) for x in a["attempts"] if x[1]]
            pb = [(x[3], x[2]) for x in b["attempts"] if x[1]]
            flip = False
            if a["n_screen"] != b["n_screen"] and a["screen_errs"] and b["screen_errs"]:
                tol_s = scn["options"].get("screening_tolerance", 1e-3)
                m = min(a["n_screen"], b["n_screen"]) - 1
                ea, eb = a["screen_errs"][m], b["screen_errs"][m]
                flip = abs(ea - eb) <= 1e-6 * tol_s and min(ea, eb) < tol_s <= max(ea, eb)
            if pa != pb or flip:
                h1.probe("twin_refusal_pattern_diverged")
                break
            worst, wname = 0.0, None
            for name in a["out"]:
                x, y = np.asarray(a["out"][name]), np.asarray(b["out"][name])
                if name == "mu":
                    # the Neumann problem fixes mu only up to an additive constant ...
                    x, y = x - x.mean(), y - y.mean()
                elif name == "psi":
                    # ... which enters psi as one global phase per step
                    ph = np.vdot(x, y)
                    if abs(ph) > 0:
                        y = y * np.conj(ph / abs(ph))
                d = float(np.max(np.abs(x - y), initial=0.0)) / (1.0 + float(np.max(np.abs(x), initial=0.0)))
                if d > worst:
                    worst, wname = d, name
            d = abs(a["dt"] - b["dt"]) / a["dt"]
            if d > worst:
                worst, wname = d, "dt"
            compared += 1
            if worst > min(CAP, TOL * GROWTH ** (compared - 1)):
                def bounces(e):
                    return sum(1 for i in range(1, len(e)) if e[i] > e[i - 1])

                erratic = bool(where["screening"] and a["n_screen"] != b["n_screen"] and min(bounces(a["screen_errs"]), bounces(b["screen_errs"])) >= 10)
                # ... or the induced potential is at rounding-noise level in one twin (exactly zero
                # currents in one statement of the problem, 1e-18 noise in the other): the relative
                # criterion then compares noise with noise
                amin = min(float(np.max(np.abs(a["out"]["induced_vector_potential"]), initial=0.0)), float(np.max(np.abs(b["out"]["induced_vector_potential"]), initial=0.0)))
                erratic = erratic or bool(where["screening"] and a["n_screen"] != b["n_screen"] and amin < 1e-10)
                V.append(Violation("unit-dependent", f"update {a['stage']}{a['step']}: dimensionless {wname} differs by {worst:.3g} (relative) between {where['units_a']} and {where['units_b']}" + (f" (screening took {a['n_screen']} vs {b['n_screen']} erratic iterations)" if erratic else ""), quantity=wname, step=a["step"], erratic_screening=erratic, **where))
                break
        lib1_ = base.expected_library_error(h1) and base.expected_library_error(h2)
        if base.expected_library_error(h1) != base.expected_library_error(h2):
            h1.probe("twin_convergence_diverged")
        elif lib1_ and not V and len(t1) != len(t2):
            # both statements of the problem end in the library's own non-convergence error, one of them a
            # step later: every step recorded by both agrees, and where an iteration that does not
            # converge gives up is a threshold decision on rounding-level data
            h1.probe("twin_both_failed_at_different_steps")
        elif not V and len(t1) != len(t2) and compared == n and not h1.probes.get("twin_refusal_pattern_diverged"):
            V.append(Violation("unit-length", f"the two unit systems made {len(t1)} and {len(t2)} updates", **where))
        # physical outputs in fixed SI units
        if h1.solution is not None and h2.solution is not None and not V:
            K1 = h1.solution.current_density.to("A/m").magnitude
            K2 = h2.solution.current_density.to("A/m").magnitude
            # "to rounding": the scale of rounding errors is set by the largest currents the run went
            # through, not by what is left of them in the last frame (after a field pulse the final
            # currents can be 1e-6 of the peak, and 1e-17 of absolute rounding noise is 1e-5 of them)
            peakJ = max([float(np.max(np.abs(u_["out"]["supercurrent"]), initial=0.0)) + float(np.max(np.abs(u_["out"]["normal_current"]), initial=0.0)) for u_ in t1] or [0.0])
            K_peak = float(get_ctx(sim1).scales.K0) * peakJ
            ref = max(float(np.max(np.abs(K1), initial=0.0)), K_peak)
            d = float(np.max(np.abs(K1 - K2), initial=0.0))
            Jlast = np.abs(np.asarray(h1.solution.tdgl_data.supercurrent)) + np.abs(np.asarray(h1.solution.tdgl_data.normal_current))
            if d > 1e-6 * ref + 1e-300 and float(np.max(Jlast, initial=0.0)) > 1e-9:
                V.append(Violation("physical-output", f"Solution.current_density in A/m differs by {d / ref:.3g} relative between the unit systems", **where))
            # a short post-processing history on each Solution: the field of the currents at fixed
            # physical points (twice), then the current density again - reading an output must not
            # change the next one, and every output is the same physical quantity in both systems
            if float(np.max(Jlast, initial=0.0)) > 1e-9 and not V:
                outs = []
                for sim_, h_ in ((sim1, h1), (sim2, h2)):
                    c_ = get_ctx(sim_)
                    xi_m = c_.xi * si.PREFIX[c_.lu]
                    pts = np.array([[0.3, 0.2], [-0.5, 0.1], [0.05, -0.4]]) * xi_m / si.PREFIX[c_.lu]
                    z = 1.0 * xi_m / si.PREFIX[c_.lu]
                    try:
                        Ka = np.array(h_.solution.current_density.to("A/m").magnitude, copy=True)
                        B1 = np.array(h_.solution.field_at_position(pts, zs=z, units="T", with_units=False), dtype=float, copy=True)
                        B2 = np.array(h_.solution.field_at_position(pts, zs=z, units="T", with_units=False), dtype=float, copy=True)
                        Kb = np.array(h_.solution.current_density.to("A/m").magnitude, copy=True)
                        # the vector potential (applied + currents) at the same points: requested in a
                        # fixed SI unit, and in the solution's own units converted afterwards
                        if scn["drive"]["field"]["kind"] == "plain":
                            # (a plain python callable as applied potential makes this method raise in
                            # every unit system - outside this property, see DESIGN 9.4)
                            Av = An = np.zeros((len(pts), 3))
                        else:
                            Av = np.array(h_.solution.vector_potential_at_position(pts, zs=z, units="T * m", with_units=False), dtype=float, copy=True)
                            Aq = h_.solution.vector_potential_at_position(pts, zs=z, with_units=True)
                            An = np.array(Aq.to("T * m").magnitude, dtype=float, copy=True)
                    except Exception as e:
                        tb_ = __import__("traceback").extract_tb(e.__traceback__)
                        if not any("/tdgl/" in f_.filename for f_ in tb_):
                            raise
                        V.append(Violation("post-processing-raised", f"Solution post-processing raised {type(e).__name__}: {str(e)[:100]}", **where))
                        outs = None
                        break
                    # voltages extracted after the run at probe positions given in physical length units
                    # (DynamicsData.from_solution): the sites they refer to are the physically closest ones
                    if getattr(h_.solution, "path", None) and os.path.exists(h_.solution.path) and not V and bool(np.all(h_.device.contains_points(pts))):
                        from tdgl.solution.data import DynamicsData

                        try:
                            dyn_ = DynamicsData.from_solution(h_.solution.path, probe_points=pts)
                        except Exception as e:
                            tb_ = __import__("traceback").extract_tb(e.__traceback__)
                            if not any("/tdgl/" in f_.filename for f_ in tb_):
                                raise
                            V.append(Violation("post-processing-raised", f"DynamicsData.from_solution raised {type(e).__name__}: {str(e)[:100]}", **where))
                            break
                        sites_phys = np.asarray(h_.device.mesh.sites) * (xi_m / si.PREFIX[c_.lu])
                        near = [int(np.argmin(np.sum((sites_phys - p_) ** 2, axis=1))) for p_ in pts]
                        frs_ = [fr for fr in h_.frames if fr["completed"]]
                        want_mu = np.array([[float(np.asarray(fr["data"]["mu"])[i_]) for fr in frs_] for i_ in near])
                        got_mu = np.asarray(dyn_.mu, dtype=float)
                        if got_mu.shape != want_mu.shape or not aeq(got_mu, want_mu):
                            V.append(Violation("probe-extraction", f"DynamicsData.from_solution at probe positions given in {c_.lu}: the potentials returned are not those of the mesh sites physically closest to the requested positions", length_units=c_.lu, **where))
                            break
                    outs.append((Ka, B1, B2, Kb, Av))
                    # absolute SI oracle for the field of the currents (whatever the units the problem was
                    # stated in): mu_0/4pi x sum over cells of area x (K x (r - r'))_z / |r - r'|^3, the film
                    # at its stated height z0, from the sheet current density in A/m
                    sites_m = np.asarray(h_.device.mesh.sites, dtype=float) * xi_m
                    areas_m2 = np.asarray(h_.device.mesh.areas, dtype=float) * xi_m**2
                    dz_m = xi_m - c_.z0 * si.PREFIX[c_.lu]
                    pts_m = pts * si.PREFIX[c_.lu]
                    Bref = np.zeros(len(pts_m))
                    for ip_, p_ in enumerate(pts_m):
                        dx_ = p_[0] - sites_m[:, 0]
                        dy_ = p_[1] - sites_m[:, 1]
                        r3_ = (dx_**2 + dy_**2 + dz_m**2) ** 1.5
                        Bref[ip_] = si.MU0 / (4 * np.pi) * float(np.sum(areas_m2 * (Ka[:, 0] * dy_ - Ka[:, 1] * dx_) / r3_))
                    refS = float(np.max(np.abs(Bref), initial=0.0))
                    if refS > 0 and np.shape(B1) == np.shape(Bref) and float(np.max(np.abs(B1 - Bref))) > 1e-7 * refS:
                        V.append(Violation("field-SI", f"Solution.field_at_position in T ({c_.lu}, {c_.fu}, {c_.cu}; film at z0 = {c_.z0:.4g} {c_.lu}) differs from the direct SI sum over the cells' sheet currents by {float(np.max(np.abs(B1 - Bref))) / refS:.3g} relative", z0_nonzero=bool(c_.z0), **where))
                        break
                    refA = max(float(np.max(np.abs(Av), initial=0.0)), float(np.max(np.abs(An), initial=0.0)), si.MU0 * K_peak * xi_m) + 1e-300
                    if float(np.max(np.abs(Av - An))) > 1e-9 * refA:
                        V.append(Violation("output-units", f"Solution.vector_potential_at_position ({c_.lu}, {c_.fu}, {c_.cu}): the value requested in T*m differs from the value in the solution's own units converted to T*m by {float(np.max(np.abs(Av - An))) / refA:.3g} relative", **where))
                        break
                    refB = max(float(np.max(np.abs(B1), initial=0.0)), si.MU0 * K_peak) + 1e-300
                    refK = max(float(np.max(np.abs(Ka), initial=0.0)), K_peak) + 1e-300
                    if float(np.max(np.abs(B1 - B2))) > 1e-9 * refB or float(np.max(np.abs(Ka - Kb))) > 1e-9 * refK:
                        V.append(Violation("output-history", f"repeating Solution.field_at_position / current_density on the same Solution ({c_.lu}, {c_.fu}, {c_.cu}) gives different values: field {float(np.max(np.abs(B1 - B2))) / refB:.3g}, current density {float(np.max(np.abs(Ka - Kb))) / refK:.3g} relative", **where))
                        break
                if outs and len(outs) == 2 and not V:
                    refB = max(float(np.max(np.abs(outs[0][1]), initial=0.0)), si.MU0 * K_peak) + 1e-300
                    dB = float(np.max(np.abs(outs[0][1] - outs[1][1])))
                    if dB > 1e-6 * refB:
                        V.append(Violation("physical-output", f"Solution.field_at_position in T at the same physical points differs by {dB / refB:.3g} relative between the unit systems", **where))
                    refA = max(float(np.max(np.abs(outs[0][4]), initial=0.0)), si.MU0 * K_peak * get_ctx(sim1).xi * si.PREFIX[get_ctx(sim1).lu]) + 1e-300
                    dA = float(np.max(np.abs(outs[0][4] - outs[1][4])))
                    if dA > 1e-6 * refA:
                        V.append(Violation("physical-output", f"Solution.vector_potential_at_position in T*m at the same physical points differs by {dA / refA:.3g} relative between the unit systems", **where))
            # independent SI value of the sheet current density: (K0/4) x site-averaged edge value ... x 4
            c = get_ctx(sim1)
            J = np.asarray(t1[-1]["out"]["supercurrent"]) + np.asarray(t1[-1]["out"]["normal_current"]) if t1 else None
            if J is not None and h1.solution.tdgl_data.step is not None:
                Jf = np.asarray(h1.solution.tdgl_data.supercurrent) + np.asarray(h1.solution.tdgl_data.normal_current)
                Ksi = c.scales.K0 * R.site_average(c.rm, Jf)
                ref = float(np.max(np.abs(Ksi), initial=0.0))
                # currents at rounding-noise level carry no information (the library normalises
                # directions with a 1e-12 floor there)
                if float(np.max(np.abs(Jf), initial=0.0)) > 1e-9 and float(np.max(np.abs(Ksi - K1))) > si.SI_TOL * ref:
                    V.append(Violation("current-density-SI", f"Solution.current_density differs from K0 x site-averaged dimensionless current by {float(np.max(np.abs(Ksi - K1))) / ref:.3g} relative", **where))
        seen = set()
        Vd = [v for v in V if not (v["rule"] in seen or seen.add(v["rule"]))]
        driven = scn["drive"]["field"]["kind"] != "zero" or scn["drive"].get("currents") is not None
        res = base.summarize(scn, h1, Vd, compared >= 3 and driven, (tuple(where["changed"]), where["screening"], scn["drive"]["field"]["kind"], (scn["drive"].get("currents") or {}).get("kind"), h1.outcome), extra={"updates_compared": compared})
        res["fingerprint"] = digest_obj([h1.fingerprint(), h2.fingerprint()])
        return res
    finally:
        for s in sims:
            s.cleanup()


def shrink(scn):
    lu0, fu0, cu0 = scn["device"]["length_units"], scn["options"]["field_units"], scn["options"]["current_units"]
    lu, fu, cu = scn["twin_units"]
    for cand in ([lu0, fu, cu], [lu, fu0, cu], [lu, fu, cu0]):
        if cand != [lu, fu, cu] and cand != [lu0, fu0, cu0]:
            yield base.with_path(scn, ["twin_units"], cand)
    for s in base.physics_shrinks(scn):
        if (s["device"]["length_units"], s["options"]["field_units"], s["options"]["current_units"]) == (lu0, fu0, cu0):
            yield s


def evidence_extra(results):
    return {"twin_updates_compared": sum(r["stats"].get("updates_compared", 0) for r in results)}
