"""C10 - refreshing link variables in place equals rebuilding the operators."""
import numpy as np
from ..common import aeq  # noqa: E402

from .. import scen
from ..checkers import C10Refresh
from ..common import Discard, Violation, substream
from . import base

ID = "C10"
LEVEL = "exploration"
RULE = (
    "(a) Engine-A runs with time-dependent fields (fast, slow down to 1e-9 relative change per step, piecewise constant, returning, "
    "through zero) and/or screening: after every refresh and before every psi attempt the operators in use are compared bitwise with "
    "a rebuild from the solver's link exponents and within 1e-10 with the reference Laplacian for the potential in force; (b) seeded "
    "refresh histories (length 1..6, repeats, zeros, pinned/unpinned) on bare MeshOperators; life cycles: solver solved twice, a sibling solver alive on the same device, device read back from a file. Non-trivial = at least one in-place refresh; "
    "distinct = scenario digests"
)
LIFECYCLES = {"p_prior": 0.07, "p_metres": 0.08, "p_reoriented": 0.08, "p_guest": 0.2}  # shared object life cycles (scen.add_lifecycles) with their default rates
BUDGET = {"quick": {"runs": 600, "chunk": 10}, "thorough": {"runs": 90000, "chunk": 20}}
COMPONENTS = {"real": ["MeshOperators.set_link_exponents / build_*", "TDGLSolver.update refresh triggers"], "stub": ["wall clock"]}


def gen(seed, idx, tier):
    rnd = substream(seed, idx, "c10")
    if rnd.random() < 0.35:
        return gen_bare(rnd)
    screening = rnd.random() < 0.15
    scn = scen.gen_physics(
        rnd,
        screening=screening,
        refuse=0.2,
        steps=(3, 25) if not screening else (2, 6),
        field_kinds=("ramp", "ramp", "pw", "sin", "wave") if not screening else ("const", "ramp", "zero"),
        eps_kinds=("none",),
    )
    f = scn["drive"]["field"]
    if f["kind"] == "ramp" and rnd.random() < 0.5:
        # slow ramp: relative change per step from 1e-2 down to 1e-9
        steps = scn["meta"]["steps"]
        rel = rnd.choice([1e-2, 1e-4, 1e-6, 1e-7, 1e-9])
        f["initial"] = 1.0
        f["final"] = 1.0 + rel * steps
        f["tmin"] = 0.0
        f["tmax"] = scn["options"]["solve_time"]
        scn["meta"]["slow_rel"] = rel
    if rnd.random() < 0.2:
        # a crash / interrupt between the gradient and the Laplacian halves of an in-place refresh:
        # an error must end the run; after a resumed interrupt no step may use a half-updated pair
        kind = rnd.choice(["exc", "sigint", "sigint"])
        scn["faults"] = scn.get("faults", []) + [{"kind": kind, "at": {"point": "line", "func": "set_link_exponents", "ordinal": rnd.randint(6, 30 * max(2, scn["meta"]["steps"])), "stage": "S"}}]
        if kind == "sigint":
            scn["options"]["pause_on_interrupt"] = True
            scn["observer"] = {"output": None, "answers": rnd.choice([["y"], ["y"], ["n"]])}
        scn["meta"]["refresh_fault"] = kind
    return scen.maybe_moved(rnd, scen.maybe_restored(rnd, scen.maybe_sibling(rnd, scen.maybe_solve_twice(rnd, scn))), 0.08)


def gen_bare(rnd):
    n = rnd.randint(1, 6)
    hist = []
    for i in range(n):
        k = rnd.choice(["rand", "rand", "zero", "repeat", "scaled"])
        if k == "repeat" and not hist:
            k = "rand"
        hist.append({"kind": k, "seed": rnd.randrange(10**6), "amp": rnd.choice([1e-3, 0.1, 1.0, 10.0]), "of": rnd.randrange(len(hist)) if hist else 0, "rel": rnd.choice([1e-3, 1e-6, 1e-9])})
    dev = scen.gen_device(rnd, size="small", n_terminals=rnd.choice([0, 2, 3]), length_units="um")
    return {"bare": True, "device": dev, "history": hist, "fix_psi": rnd.random() < 0.7, "options": {}, "drive": {"field": {"kind": "zero"}}, "faults": [], "meta": {}}


def run_bare(scn):
    from tdgl.finite_volume.operators import MeshOperators
    from tdgl.solver.options import SparseSolver

    from .. import build as B
    from .. import refphys as R

    dev = B.build_device(scn["device"])
    mesh = dev.mesh
    fixed = np.concatenate([t.site_indices for t in dev.terminal_info()]).astype(np.int64) if dev.terminals else np.array([], dtype=np.int64)
    ops = MeshOperators(mesh, SparseSolver.SUPERLU, fixed_sites=fixed, fix_psi=scn["fix_psi"])
    rm = R.RefMesh(mesh)
    ne = len(mesh.edge_mesh.edges)
    As = []
    V = []
    refreshes = 0
    for i, hrec in enumerate(scn["history"]):
        rs = np.random.default_rng(hrec["seed"])
        if hrec["kind"] == "rand":
            A = hrec["amp"] * rs.standard_normal((ne, 2))
        elif hrec["kind"] == "zero":
            A = np.zeros((ne, 2))
        elif hrec["kind"] == "repeat":
            A = As[hrec["of"]].copy()
        else:
            A = (As[-1] if As else np.ones((ne, 2))) * (1 + hrec["rel"])
        As.append(A)
        ops.set_link_exponents(A.copy())
        if i > 0:
            refreshes += 1
        fresh = MeshOperators(mesh, SparseSolver.SUPERLU, fixed_sites=fixed, fix_psi=scn["fix_psi"])
        fresh.set_link_exponents(A.copy())
        for name in ("psi_gradient", "psi_laplacian"):
            a = getattr(ops, name).tocsr().copy()
            b = getattr(fresh, name).tocsr().copy()
            for m in (a, b):
                m.sum_duplicates()
                m.sort_indices()
            d = a - b
            err = float(np.max(np.abs(d.data), initial=0.0))
            same = aeq(a.indptr, b.indptr) and aeq(a.indices, b.indices)
            if err != 0 or not same:
                V.append(Violation("refresh-vs-rebuild", f"bare history step {i} ({hrec['kind']}): {name} differs from rebuild (max {err:.3g}, same pattern {same})", operator=name, pattern=bool(same)))
        pinned = fixed if scn["fix_psi"] else None
        Lref = rm.cov_laplacian(A, pinned=pinned)
        err = float(np.max(np.abs(ops.psi_laplacian.toarray() - Lref)))
        if err > 1e-10 * float(np.max(np.abs(Lref))):
            V.append(Violation("stale-operators", f"bare history step {i}: Laplacian differs from the reference for the latest potential by {err:.3g}", step=i, screening=False, rel=err))
        if V:
            break
    from ..common import digest_arrays, digest_obj

    fp = digest_arrays(ops.psi_laplacian.toarray(), ops.psi_gradient.toarray())
    return {
        "digest": digest_obj(scn),
        "outcome": "bare",
        "exc": None,
        "violations": [dict(v) for v in V],
        "nontrivial": refreshes >= 1,
        "sig": ("bare", len(scn["history"]), scn["fix_psi"], len(fixed) > 0, tuple(h["kind"] for h in scn["history"])),
        "fingerprint": fp,
        "stats": {"steps": 0, "sim_time": 0.0, "probes": {"refresh": refreshes}, "faults": [], "attempts": 0, "screen_iters": 0, "sites": len(mesh.sites), "refreshes": refreshes, "compared": len(scn["history"])},
        "discard": None,
    }


def run(scn):
    if scn.get("bare"):
        return run_bare(scn)
    ck = C10Refresh()
    if scn["meta"].get("refresh_fault"):
        ck.check_expected = scn["meta"]["refresh_fault"] != "sigint"  # after a resume the step/time mapping is undefined
    return base.physics_run(
        scn,
        [ck],
        lambda h, c: ck.refreshes >= 2,
        lambda h: (scn["meta"].get("slow_rel"),),
        extra=lambda h, c: {"refreshes": ck.refreshes, "compared": ck.compared, "max_stale_rel": ck.max_stale},
    )


def shrink(scn):
    if scn.get("bare"):
        import copy

        hist = scn["history"]
        for hl in base.drop_each(hist):
            if hl and all(h["kind"] != "repeat" or h["of"] < i for i, h in enumerate(hl)):
                yield base.with_path(scn, ["history"], hl)
        if scn["device"]["terminals"]:
            yield base.with_path(scn, ["device", "terminals"], [])
        return
    yield from base.physics_shrinks(scn)


def evidence_extra(results):
    return {"refreshes_compared": sum(r["stats"].get("compared", 0) for r in results), "in_place_refreshes": sum(r["stats"].get("refreshes", 0) for r in results)}
