"""C04 - observables are invariant under gauge transformations (run level).

Differential simulation: the same scenario is executed twice, the second time in a
gauge-transformed environment (applied potential A + grad chi, initial psi e^{i chi}),
everything else - faults included - identical.  chi is linear (uniform shift of A) or
quadratic (for which the midpoint rule makes the discrete transform exact)."""
import copy

import numpy as np

from .. import build as B
from .. import scen
from ..common import Discard, Violation, digest_obj, substream
from ..engine import run_scenario
from . import base

ID = "C04"
LEVEL = "exploration"
RULE = (
    "twin pairs: one Engine-A scenario (with/without terminals and bias, static and time-dependent fields, screening on/off, "
    "adaptive, thermalisation, injected refusals) executed in the original gauge and with A -> A + grad chi, psi_init -> psi_init "
    "e^{i chi}, chi linear (uniform shift) or quadratic; every update of both runs compared: |psi|, currents, mu up to a constant, "
    "induced potential, dt, psi up to the gauge phase and one global phase; non-trivial = at least 3 updates compared with a "
    "non-zero chi on a driven or field-carrying run; distinct = scenario digests"
)
LIFECYCLES = {}  # shared object life cycles (scen.add_lifecycles) with their default rates
BUDGET = {"quick": {"runs": 300, "chunk": 6}, "thorough": {"runs": 40000, "chunk": 10}}
COMPONENTS = {"real": ["MeshOperators link variables (build + refresh)", "TDGLSolver.update incl. temporal link variable and retries", "screening kernel"], "stub": ["wall clock"]}
ASSUMPTIONS = ["Run-level part only (operator-level covariance for arbitrary site functions chi is an input-space statement). Non-zero terminal_psi is excluded: a pinned value is not gauge covariant."]
TOL = 1e-8  # at the first update; rounding differences may grow by the factor GROWTH per update, capped at CAP
GROWTH = 4.0
CAP = 1e-3


def gen(seed, idx, tier):
    rnd = substream(seed, idx, "c04")
    screening = rnd.random() < 0.2
    scn = scen.gen_physics(
        rnd,
        screening=screening,
        steps=(3, 25) if not screening else (2, 5),
        dt_choices=[1e-3, 0.01, 0.02],
        refuse=0.3,
        eps_kinds=("none", "none", "const", "spatial"),
        gamma=rnd.choice([0.0, 0.1, 1.0]),
    )
    if screening and scn["drive"]["field"]["kind"] in ("zero", "ramp", "pw", "sin", "wave"):
        # a vanishing induced potential makes the relative convergence test a coin flip on noise
        was = scn["drive"]["field"]["kind"]
        scn["drive"]["field"] = {"kind": "const", "B": scn["drive"]["field"].get("B", 0.1) or 0.1}
        r2 = substream(seed, idx, "c04-screened-time-dependent")
        if was != "zero" and r2.random() < 0.7:
            # ... but a time-dependent field that stays away from zero does not: the electric field -dA/dt
            # and the screening iterations (operators refreshed inside the step) meet in the same update
            scn["drive"]["field"] = {"kind": "ramp", "B": scn["drive"]["field"]["B"], "tmin": 0.0, "tmax": scn["options"]["solve_time"], "initial": 1.0, "final": r2.choice([1.5, 2.0, 0.5, 1.05])}
    tp = scn["options"].get("terminal_psi", 0.0)
    if tp not in (0.0, None):
        scn["options"]["terminal_psi"] = rnd.choice([0.0, None])
    kind = rnd.choice(["linear", "linear", "quadratic"])
    c = [scen.r3(rnd.uniform(-0.6, 0.6)), scen.r3(rnd.uniform(-0.6, 0.6))]
    if rnd.random() < 0.35:
        # a large uniform shift (|A| >> its change per step) on top of a slowly varying field:
        # anything that decides "has A changed?" relative to |A| becomes gauge dependent
        mag = rnd.choice([10.0, 100.0, 1000.0])
        c = [scen.r3(mag * rnd.uniform(0.3, 1.0) * rnd.choice([1, -1])), scen.r3(mag * rnd.uniform(0.3, 1.0) * rnd.choice([1, -1]))]
        kind = "linear"
        if not screening and rnd.random() < 0.7:
            steps = scn["meta"]["steps"]
            rel = rnd.choice([1e-2, 1e-3, 1e-4, 1e-5])
            B0 = scn["drive"]["field"].get("B") or 0.3
            scn["drive"]["field"] = {"kind": "ramp", "B": B0, "tmin": 0.0, "tmax": scn["options"]["solve_time"], "initial": 1.0, "final": 1.0 + rel * steps * rnd.choice([1, 30])}
            scn["meta"]["slow_rel"] = rel
    q = [0.0, 0.0, 0.0]
    if kind == "quadratic":
        q = [scen.r3(rnd.uniform(-0.15, 0.15)) for _ in range(3)]
    scn["gauge"] = {"c": c, "q": q}
    return scen.maybe_moved(rnd, scen.maybe_restored(rnd, scn, 0.15), 0.08)


def traj(h):
    out = []
    for st in ("T", "S"):
        for u in h.stages[st]:
            if u["out"] is not None:
                out.append(u)
    return out


def run(scn):
    from . import c17

    if not c17.stable(scn):
        raise Discard("explicit-euler-unstable-dt")
    g = scn["gauge"]
    s1 = copy.deepcopy(scn)
    s1.pop("gauge")
    s2 = copy.deepcopy(s1)
    s2["drive"]["field"] = dict(s2["drive"]["field"], gauge=g)
    sim1, h1 = run_scenario(s1)
    sims = [sim1]
    try:
        if h1.outcome.startswith("rejected"):
            raise Discard(f"rejected:{h1.exc[0]}:{h1.exc[1][:40]}")
        sites = np.asarray(h1.device.mesh.sites)
        chi = B.chi_of_sites(sites, g)

        def hook(solver):
            solver.psi_init = solver.psi_init * np.exp(1j * chi)

        sim2, h2 = run_scenario(s2, psi_init_hook=hook)
        sims.append(sim2)
        V = []
        where = dict(chi="quadratic" if any(g["q"]) else "linear", screening=bool(scn["options"]["include_screening"]), terminals=len(scn["device"]["terminals"]), field=scn["drive"]["field"]["kind"])
        if h2.outcome.startswith("rejected"):
            V.append(Violation("gauge-rejected", f"the gauge-transformed problem was rejected: {h2.exc}", **where))
        t1, t2 = traj(h1), traj(h2)
        n = min(len(t1), len(t2))
        compared = 0
        for a, b in zip(t1[:n], t2[:n]):
            # refusals (which screening iteration, how many) must coincide; the number of screening
            # iterations may differ only if the exit decision was a coin flip on the tolerance
            pa = [(x[3], x[2]) for x in a["attempts"] if x[1]]
            pb = [(x[3], x[2]) for x in b["attempts"] if x[1]]
            flip = False
            if a["n_screen"] != b["n_screen"] and a["screen_errs"] and b["screen_errs"]:
                tol_s = scn["options"].get("screening_tolerance", 1e-3)
                m = min(a["n_screen"], b["n_screen"]) - 1
                ea, eb = a["screen_errs"][m], b["screen_errs"][m]
                flip = abs(ea - eb) <= 1e-6 * tol_s and min(ea, eb) < tol_s <= max(ea, eb)
            if pa != pb or flip:
                # a refusal decided by the last bit of a discriminant: the twins part ways legitimately
                h1.probe("twin_refusal_pattern_diverged")
                break
            oa, ob = a["out"], b["out"]
            scale = lambda x: 1.0 + float(np.max(np.abs(x), initial=0.0))  # noqa: E731
            diffs = {}
            diffs["|psi|"] = float(np.max(np.abs(np.abs(oa["psi"]) - np.abs(ob["psi"])))) / scale(oa["psi"])
            diffs["supercurrent"] = float(np.max(np.abs(oa["supercurrent"] - ob["supercurrent"]))) / scale(oa["supercurrent"])
            diffs["normal_current"] = float(np.max(np.abs(oa["normal_current"] - ob["normal_current"]))) / scale(oa["normal_current"])
            ma, mb = oa["mu"] - np.mean(oa["mu"]), ob["mu"] - np.mean(ob["mu"])
            diffs["mu (up to a constant)"] = float(np.max(np.abs(ma - mb))) / scale(oa["mu"])
            diffs["induced_vector_potential"] = float(np.max(np.abs(oa["induced_vector_potential"] - ob["induced_vector_potential"]))) / scale(oa["induced_vector_potential"])
            diffs["dt"] = abs(a["dt"] - b["dt"]) / a["dt"]
            back = ob["psi"] * np.exp(-1j * chi)
            ph = np.vdot(oa["psi"], back)
            if abs(ph) > 0:
                back = back * np.conj(ph / abs(ph))
            diffs["psi (gauge phase removed)"] = float(np.max(np.abs(back - oa["psi"]))) / scale(oa["psi"])
            worst = max(diffs, key=diffs.get)
            compared += 1
            if diffs[worst] > min(CAP, TOL * GROWTH ** (compared - 1)):
                # erratic screening iteration: dozens of iterations whose error bounces instead of
                # decreasing; the exit iteration (and, because psi advances once per iteration, the
                # state) is then decided by amplified rounding noise
                def bounces(e):
                    return sum(1 for i in range(1, len(e)) if e[i] > e[i - 1])

                erratic = bool(where["screening"] and a["n_screen"] != b["n_screen"] and min(bounces(a["screen_errs"]), bounces(b["screen_errs"])) >= 10)
                # ... or the induced potential is at rounding-noise level in one twin (exactly zero
                # currents in one statement of the problem, 1e-18 noise in the other): the relative
                # criterion then compares noise with noise
                amin = min(float(np.max(np.abs(a["out"]["induced_vector_potential"]), initial=0.0)), float(np.max(np.abs(b["out"]["induced_vector_potential"]), initial=0.0)))
                erratic = erratic or bool(where["screening"] and a["n_screen"] != b["n_screen"] and amin < 1e-10)
                V.append(
                    Violation(
                        "gauge-dependent",
                        f"update {a['stage']}{a['step']}: {worst} differs by {diffs[worst]:.3g} (relative) between the two gauges"
                        + (f" (screening took {a['n_screen']} vs {b['n_screen']} erratic iterations)" if erratic else ""),
                        quantity=worst, step=a["step"], stage=a["stage"], erratic_screening=erratic, **where,
                    )
                )
                break
        lib1, lib2 = base.expected_library_error(h1), base.expected_library_error(h2)
        lib1_ = lib1 and lib2
        if lib1 != lib2:
            # convergence / retry-exhaustion errors are threshold decisions on rounding-level data
            h1.probe("twin_convergence_diverged")
        elif lib1_ and not V and len(t1) != len(t2):
            # both statements of the problem end in the library's own non-convergence error, one of them a
            # step later: every step recorded by both agrees, and where an iteration that does not
            # converge gives up is a threshold decision on rounding-level data
            h1.probe("twin_both_failed_at_different_steps")
        elif not V and len(t1) != len(t2) and compared == n and not h1.probes.get("twin_refusal_pattern_diverged"):
            V.append(Violation("gauge-length", f"the two gauges made {len(t1)} and {len(t2)} updates ({h1.outcome} / {h2.outcome})", **where))
        driven = scn["drive"]["field"]["kind"] != "zero" or scn["drive"].get("currents") is not None or (scn["drive"].get("epsilon") or {}).get("kind") == "spatial"
        res = base.summarize(scn, h1, V, compared >= 3 and driven and (any(g["c"]) or any(g["q"])), (where["chi"], where["screening"], where["terminals"] > 0, where["field"], (scn["drive"].get("currents") or {}).get("kind"), h1.outcome, bool(h1.faults_fired)), extra={"updates_compared": compared})
        res["fingerprint"] = digest_obj([h1.fingerprint(), h2.fingerprint()])
        return res
    finally:
        for s in sims:
            s.cleanup()


def shrink(scn):
    g = scn["gauge"]
    if any(g["q"]):
        yield base.with_path(scn, ["gauge", "q"], [0.0, 0.0, 0.0])
    if g["c"][0] and g["c"][1]:
        yield base.with_path(scn, ["gauge", "c"], [g["c"][0], 0.0])
    yield from base.physics_shrinks(scn)


def evidence_extra(results):
    return {"twin_updates_compared": sum(r["stats"].get("updates_compared", 0) for r in results)}
