"""C17 - the uniform superconducting state is exactly stationary."""
from .. import scen
from ..checkers import C17Stationary
from ..common import Violation, substream
from . import base

ID = "C17"
LEVEL = "exploration"
RULE = (
    "quiescent environment (no field, no current, epsilon = 1, terminals unpinned or pinned to the uniform value 1): random irregular / smoothed / holed meshes, "
    "gamma and u varied, adaptive on/off, screening on/off, thermalisation, injected refusals, up to 300 steps; stationarity "
    "invariant (<= 1e-9) after every update and bounded liveness dt == dt_max from step window+2 on; non-trivial = at least 5 "
    "updates on a mesh with >= 10 sites; distinct = scenario digests"
)
LIFECYCLES = {"p_prior": 0.15, "p_metres": 0.08, "p_guest": 0.3}  # shared object life cycles (scen.add_lifecycles) with their default rates
BUDGET = {"quick": {"runs": 300, "chunk": 10}, "thorough": {"runs": 40000, "chunk": 20}}
COMPONENTS = {"real": ["mesh + MeshOperators", "TDGLSolver.update incl. screening kernel", "dt controller"], "stub": ["wall clock"]}
ASSUMPTIONS = ["'Exactly stationary' is decided as 'to accumulated rounding' (<= 1e-9): Laplacian row sums are ~1e-14 on irregular meshes, a wrong sign or weight moves psi by O(dt) >= 1e-4 per step."]


def gen(seed, idx, tier):
    rnd = substream(seed, idx, "c17")
    screening = rnd.random() < 0.15
    scn = scen.gen_physics(
        rnd,
        n_terminals=rnd.choice([0, 0, 2, 3]),
        screening=screening,
        steps=(5, 60) if not screening else (3, 10),
        dt_choices=[1e-4, 1e-3, 0.01, 0.02],
        field_kinds=("zero",),
        eps_kinds=("none", "const1"),
        p_currents=0.0,
        refuse=0.3,
        size=rnd.choice(["small", "small", "medium"]),
    )
    scn["drive"]["epsilon"] = rnd.choice([None, {"kind": "const", "v": 1.0}])
    scn["drive"]["field"] = rnd.choice([{"kind": "zero"}, {"kind": "const", "B": 0.0}, {"kind": "const_param", "B": 0.0}])
    if scn["device"]["terminals"]:
        # left unpinned, or (a quarter) pinned to the value of the uniform state itself, for which
        # psi = 1 is still a fixed point of the documented scheme
        scn["options"]["terminal_psi"] = rnd.choice([None, None, None, 1.0])
        if rnd.random() < 0.5:
            scn["drive"]["currents"] = {"kind": "const", "I": {t["name"]: 0.0 for t in scn["device"]["terminals"]}}
    if rnd.random() < 0.3:
        # longer run for the liveness part
        scn["options"]["solve_time"] = scen.r3(scn["options"]["dt_init"] * rnd.randint(60, 300))
        scn["options"]["adaptive"] = True
        scn["options"]["dt_max"] = scen.r3(scn["options"]["dt_init"] * rnd.choice([2.0, 10.0]))
    elif rnd.random() < 0.2 and not screening:
        # a very small first step (the library's own error message recommends "a smaller dt_init"):
        # dt_max / dt_init from 1e5 to 1e8; the step must still grow to dt_max right after the window
        o = scn["options"]
        o["adaptive"] = True
        o["dt_init"] = rnd.choice([1e-9, 1e-8, 1e-8, 1e-7])
        o["dt_max"] = rnd.choice([0.01, 0.02, 0.05, 0.1])
        o["adaptive_window"] = rnd.choice([1, 2, 3, 5])
        o["solve_time"] = scen.r3(o["dt_max"] * rnd.randint(4, 25))
        if o.get("skip_time"):
            o["skip_time"] = scen.r3(o["dt_max"] * rnd.randint(1, 3))
        scn["faults"] = []
        scn["meta"]["tiny_dt_init"] = True
    rg = substream(seed, idx, "c17-guest-inside-step")
    if rg.random() < 0.2 and scn["options"].get("adaptive"):
        # a strongly disturbed other simulation (contacts pinned to zero, suppressed epsilon, a field) runs INSIDE
        # a step of the quiescent one, after its psi update - between the psi update and the end of the step the
        # run still holds |psi|^2 for the step-size controller
        steps_ = max(1, min(int(scn["meta"].get("steps", 5)), 10))
        what = {"mode": "other-field", "field": {"kind": "const", "B": scen.r3(rg.choice([0.7, 1.5]) * scen.FIELD_FACTOR[scn["options"].get("field_units", "mT")])}, "steps": rg.choice([2, 3]), "save_every": 100, "epsilon": {"kind": "const", "v": rg.choice([0.3, -0.5])}}
        if scn["device"]["terminals"]:
            what["terminal_psi"] = 0.0
        fn = rg.choice(["solve_for_observables", "solve_for_observables", "update"])
        at = {"point": "line", "stage": "S", "func": fn, "ordinal": (rg.randint(0, 6) + 7 * rg.randint(0, steps_ - 1)) if fn == "solve_for_observables" else rg.randint(30, 60 * steps_)}
        if scn["options"].get("include_screening") and rg.random() < 0.5:
            at = {"point": "screen", "stage": "S", "step": rg.randint(0, steps_ - 1), "nth": rg.choice([0, 1])}
        scn["guests"] = [{"at": at, "what": what}]
    return scen.maybe_sibling(rnd, scen.maybe_restored(rnd, scen.maybe_solve_twice(rnd, scn)), 0.15)


def post(sim, h):
    o = sim.scn["options"]
    V = []
    if h.outcome.startswith("raised") and not h.faults_fired and not base.injected(h.exc_obj):
        # nothing was injected: a quiescent run has nothing to fail on (the induced potential of
        # the uniform state is identically zero, every discriminant is positive)
        V.append(Violation("quiescent-run-failed", f"the undriven run raised {h.exc[0]}: {h.exc[1][:110]}", exc=h.exc[0], screening=bool(o.get("include_screening"))))
    if o.get("adaptive") and not sim.scn.get("faults"):
        win = o.get("adaptive_window", 10)
        for u in h.stages["S"]:
            if u["out"] is not None and u["step"] >= win + 2 and u["dt"] != o["dt_max"]:
                V.append(Violation("dt-not-max", f"step {u['step']}: dt={u['dt']!r} has not grown to dt_max={o['dt_max']!r} in a stationary run (window {win})", step=u["step"]))
                break
    return V


def stable(scn):
    """Explicit-Euler stability of the phase mode around psi = 1:
    dt sqrt(1+gamma^2)/u * max_i sum_j (s_ij/e_ij)/a_i <= 1/2. Outside it, rounding noise
    (Laplacian row sums ~1e-14) is amplified exponentially, which is a statement about IEEE
    arithmetic, not about the scheme."""
    import numpy as np

    from .. import build as B
    from ..refphys import RefMesh

    dev = B.build_device(scn["device"])
    rm = RefMesh(dev.mesh)
    diag = np.zeros(rm.n)
    w = rm.s_len / rm.e_len
    np.add.at(diag, rm.edges[:, 0], w / rm.areas[rm.edges[:, 0]])
    np.add.at(diag, rm.edges[:, 1], w / rm.areas[rm.edges[:, 1]])
    lay = scn["device"]["layer"]
    o = scn["options"]
    dt = o["dt_max"] if o.get("adaptive") else o["dt_init"]
    return dt * (1 + lay["gamma"] ** 2) ** 0.5 / lay["u"] * diag.max() <= 0.5


def run(scn):
    from ..common import Discard

    if not stable(scn):
        raise Discard("explicit-euler-unstable-dt")
    ck = C17Stationary()
    return base.physics_run(
        scn,
        [ck],
        lambda h, c: ck.steps >= 5 and len(h.device.mesh.sites) >= 10,
        lambda h: (scn["device"]["mesh"]["smooth"], scn["device"]["layer"]["gamma"]),
        extra=lambda h, c: {"max_dev": ck.max_dev},
        post=post,
    )


def shrink(scn):
    yield from base.physics_shrinks(scn)
