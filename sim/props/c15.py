"""C15 - a stopped simulation leaves a clean, readable, truthful output.

Crash points: exception / MemoryError / ENOSPC / KeyboardInterrupt injected at stage
boundaries (before / after the update, before / after the frame writer) and at line-level
pre-emption points inside the update and the frame writer, at every step of bounded runs,
both stages, with and without an explicit output path, with pre-existing files at the
path.  Oracle: file-system + open-handle oracle, recorder model, fault-free twin.
"""
import copy
import os

import numpy as np

from .. import recorder, scen
from ..common import Discard, Violation, substream
from ..engine import TRACE_FUNCS, _payload, h5_open_count, run_scenario
from . import base

ID = "C15"
LEVEL = "fault_enumeration"
RULE = (
    "the first runs of every batch ENUMERATE every stage-boundary crash point of a bounded family (k 1..3 x N 1..5 x point x step x "
    "{error, cancel} x output location; see enumerated_crash_points); the remaining runs are seeded samples: crash points = (fault kind in {RuntimeError, MemoryError, ENOSPC, KeyboardInterrupt}) x (stage-boundary point in "
    "{update.before, update.after, save.before, save.after} or line-level pre-emption point inside update / frame-writer functions) "
    "x (stage, step) of bounded runs (Engine B stub physics and Engine A), x output path shape / None x pre-existing files x "
    "pause answers; seeded sampling, one fault per run; non-trivial = the fault fired inside an in-flight run (update or writer "
    "region); distinct = distinct (scenario digest incl. fault)"
)
LIFECYCLES = {}  # shared object life cycles (scen.add_lifecycles) with their default rates
BUDGET = {"quick": {"runs": 3000, "chunk": 25}, "thorough": {"runs": 150000, "chunk": 50, "max_wall": 9000}}
COMPONENTS = {
    "real": ["Runner loop incl. KeyboardInterrupt handling", "DataHandler (exclusive create, tmp file, temp dir, close)", "TDGLSolver.solve teardown / Solution assembly", "h5py/HDF5 on a real scratch directory", "TDGLSolver.update (Engine A runs)"],
    "stub": ["physics update in Engine B runs", "input() (scripted answers)", "monitor subprocess", "temp-dir factory (recorded, real directories)", "ENOSPC raised at the line/stage boundary of the writer, not by the kernel at flush time"],
}
ASSUMPTIONS = [
    "Faults during DataHandler.__enter__/save_mesh/close and process death (kill -9) are outside the property's quantifier and not injected.",
    "After a 'y' answer (resume) only cleanliness is checked: no listed property specifies the trajectory after a resume.",
]

WRITER_FUNCS = [f for f, r in TRACE_FUNCS.items() if r == "writer"]
UPDATE_FUNCS_STUB = ["append"]
UPDATE_FUNCS_REAL = [f for f, r in TRACE_FUNCS.items() if r == "update"]


# every stage-boundary crash point of a bounded family of runs, enumerated by the first GRID_SIZE runs
GRID = [
    (k, N, point, step, kind, explicit)
    for k in (1, 2, 3)
    for N in (1, 2, 3, 4, 5)
    for point in ("update.before", "update.after", "save.before", "save.after")
    for step in range(0, N + 1)
    for kind in ("exc", "sigint")
    for explicit in (False, True)
    if not (point.startswith("update") and step == N)  # no update is started at the final step
]
GRID_SIZE = len(GRID)


def gen(seed, idx, tier):
    rnd = substream(seed, idx, "c15")
    cell = GRID[idx] if idx < GRID_SIZE else None
    engine_a = cell is None and rnd.random() < 0.15
    k = rnd.randint(1, 5)
    N = rnd.randint(1, 9)
    therm = rnd.random() < 0.3
    if cell is not None:
        k, N = cell[0], cell[1]
        therm = False
    if engine_a:
        dev = scen.gen_device(rnd, size="small", n_terminals=rnd.choice([0, 2]), n_probes=rnd.choice([0, 2]), length_units="um")
        dt = rnd.choice([0.01, 0.05])
        opts = scen.base_options(
            solve_time=scen.r3(dt * N),
            skip_time=scen.r3(dt * rnd.randint(1, 3)) if therm else 0.0,
            dt_init=dt,
            dt_max=dt * 4,
            adaptive=rnd.random() < 0.5,
            adaptive_window=2,
            save_every=k,
            include_screening=rnd.random() < 0.3,
        )
        cur = None
        if dev["terminals"]:
            cur = {"kind": "const", "I": {"source": 1.0, "drain": -1.0}}
        drive = {"field": rnd.choice([{"kind": "zero"}, {"kind": "const", "B": 0.2}, {"kind": "ramp", "B": 0.3, "tmin": 0.0, "tmax": 1.0}]), "currents": cur, "epsilon": None}
        scn = {"physics": "real", "device": dev, "options": opts, "drive": drive}
    else:
        dts = [rnd.choice([0.1, 0.25, 0.01])] * (N + 3)
        dts_T = [0.05] * 6
        dev = scen.gen_device(rnd, size="tiny", n_terminals=0, n_probes=rnd.choice([0, 2, 3]), n_holes=0, length_units="um", gamma=1.0)
        dev["mesh"]["smooth"] = 0
        NT = rnd.randint(1, 3)
        opts = scen.base_options(
            solve_time=scen.seq_sum(dts, N),
            skip_time=(scen.seq_sum(dts_T, NT - 1) + 0.02) if therm else 0.0,
            dt_init=dts[0],
            dt_max=1.0,
            adaptive=False,
            save_every=k,
            include_screening=rnd.random() < 0.3,
        )
        field = {"kind": "ramp", "B": 0.1, "tmin": 0.0, "tmax": 10.0} if rnd.random() < 0.25 else {"kind": "zero"}
        scn = {"physics": "stub", "device": dev, "options": opts, "drive": {"field": field, "currents": None, "epsilon": None}, "stub": {"dts_S": dts, "dts_T": dts_T, "default_dt": dts[0]}}
    # observer
    out = None
    pre = {}
    if rnd.random() < 0.7:
        path = rnd.choice(["out.h5", "out.h5", "sub/dir/out.h5", "a.b/out.v2.h5", "data/run.1/out.h5"])
        out = {"path": path, "absolute": rnd.random() < 0.8}
        if rnd.random() < 0.45:
            d = os.path.dirname(path)
            stem, ext = os.path.basename(path).rsplit(".", 1)
            coll = rnd.choice(["file", "file+1", "stale-tmp", "file+stale-tmp", "unrelated", "serial-tmp", "subset", "subset", "subset"])
            j = lambda n: os.path.join(d, n) if d else n  # noqa: E731
            if coll == "subset":
                # any combination of outputs and stale temporaries on the first three candidate names
                for serial in ("", "-1", "-2"):
                    if rnd.random() < 0.45:
                        pre[j(f"{stem}{serial}.{ext}")] = "h5"
                    if rnd.random() < 0.35:
                        pre[j(f"{stem}{serial}.{ext}.tmp")] = "stale temporary file of an earlier crash"
            if coll in ("file", "file+1", "file+stale-tmp"):
                pre[j(f"{stem}.{ext}")] = "h5"
            if coll == "file+1":
                pre[j(f"{stem}-1.{ext}")] = "h5"
            if coll in ("stale-tmp", "file+stale-tmp"):
                pre[j(f"{stem}.{ext}.tmp")] = "stale temporary file of an earlier crash"
            if coll == "serial-tmp":
                pre[j(f"{stem}.{ext}")] = "h5"
                pre[j(f"{stem}-1.{ext}.tmp")] = "stale"
            if coll == "unrelated":
                pre[j("notes.txt")] = "unrelated"
    pause = rnd.random() < 0.4
    scn["options"]["pause_on_interrupt"] = pause
    answers = []
    if pause:
        answers = rnd.choice([["n"], [], ["N"], ["no"], ["y"], ["Yes"], [""]])
    scn["observer"] = {"output": out, "preexisting": pre, "answers": answers}
    scn["env"] = {}
    # the fault
    kind = rnd.choice(["exc", "exc", "sigint", "sigint", "sigint", "enospc", "mem"])
    stage = "T" if (therm and rnd.random() < 0.3) else "S"
    if rnd.random() < 0.5:
        point = rnd.choice(["update.before", "update.after", "save.before", "save.after"])
        if stage == "T" and point.startswith("save"):
            point = "update.before"
        step = rnd.randint(0, N if stage == "S" else 2)
        if point.startswith("save"):
            step = (step // k) * k
        at = {"point": point, "stage": stage, "step": step}
        if kind == "enospc" and not point.startswith("save"):
            kind = "exc"
    else:
        region = rnd.choice(["writer", "writer", "update"]) if stage == "S" else "update"
        if region == "writer":
            func = rnd.choice(WRITER_FUNCS)
        else:
            func = rnd.choice(UPDATE_FUNCS_REAL if engine_a else UPDATE_FUNCS_STUB)
            if engine_a and scn["options"]["include_screening"] and rnd.random() < 0.6:
                func = rnd.choice(["get_induced_vector_potential", "solve_for_observables", "adaptive_euler_step"])  # inside the screening iterations
            if kind == "enospc":
                kind = "exc"
        at = {"point": "line", "func": func, "frac": rnd.random(), "stage": stage}
    scn["faults"] = [] if rnd.random() < 0.03 else [{"kind": kind, "at": at}]
    if cell is not None:
        # fixed known-good geometry, no pause, empty directory: only the crash point varies
        scn["device"]["film"] = {"kind": "box", "w": 4.13, "h": 3.07, "npts": 14}
        scn["device"]["layer"] = {"xi": 0.5, "lam": 2.0, "d": 0.1, "u": 5.79, "gamma": 1.0, "z0": 0.0}
        scn["device"]["probes"] = [[-1.2, 0.8], [1.2, 0.8]]
        scn["options"]["pause_on_interrupt"] = False
        scn["observer"] = {"output": {"path": "out.h5", "absolute": True} if cell[5] else None, "preexisting": {}, "answers": []}
        scn["faults"] = [{"kind": cell[4], "at": {"point": cell[2], "stage": "S", "step": cell[3]}}]
        scn["meta"] = {"k": k, "N": N, "engine": "B", "grid_cell": idx}
        return scn
    if scn["faults"] and rnd.random() < 0.12 and not pause:
        # fault sequence: a cancellation inside the update at a step that is not a multiple of k,
        # then a second fault while the final frame is being saved
        i = rnd.randint(1, max(1, N))
        if i % k != 0:
            first = {"kind": "sigint", "at": {"point": rnd.choice(["update.before", "update.after"]), "stage": "S", "step": i}}
            second = {"kind": rnd.choice(["sigint", "exc", "enospc"]), "at": {"point": "save.before" if rnd.random() < 0.3 else "line", "stage": "S", "step": i, "func": rnd.choice(WRITER_FUNCS), "frac": 0.0}}
            second["at"]["frac"] = rnd.uniform(0.0, 1.0)
            second["at"]["final_save"] = True
            scn["faults"] = [first, second]
    scn["meta"] = {"k": k, "N": N, "engine": "A" if engine_a else "B"}
    return scn


def region_of(at):
    if at["point"] == "line":
        return TRACE_FUNCS.get(at["func"], "other")
    return "update" if at["point"].startswith("update") else "writer"


def complete_frame(fr, names, has_rs, rs_names):
    if fr["step"] is None or fr["time"] is None or fr["dt"] is None:
        return "missing attrs"
    if "timestamp" not in fr.get("attrs", ["timestamp"]):
        return "missing timestamp"
    if set(fr["data"]) != set(names):
        return f"datasets {sorted(fr['data'])} != {sorted(names)}"
    if has_rs and fr["running"] is None:
        return "missing per-step records"
    if has_rs and set(fr["running"]) != set(rs_names):
        return f"record columns {sorted(fr['running'])} != {sorted(rs_names)}"
    return None


def oracle(scn, sim, h, tw):
    V = []
    fi = h.fire_info
    fault = scn["faults"][0] if scn["faults"] else None
    if fi is not None and len(scn["faults"]) > 1 and len(h.faults_fired) > 1:
        fault = scn["faults"][1]  # a fault sequence: the last fault that fired classifies the stop
        h.probe("fault_sequence_both_fired")
    k = scn["options"]["save_every"]
    stub = scn.get("physics") == "stub"
    out = scn["observer"]["output"]
    pre = scn["observer"].get("preexisting", {})
    resumed = any(isinstance(e[1], str) and e[1].lower().startswith("y") for e in h.events if e[0] == "input")
    where0 = dict(kind=fault["kind"] if fault else None, region=region_of(fault["at"]) if fault else None, stage=fi["stage"] if fi else None, engine=scn["meta"]["engine"])
    if fi is not None and fault["at"]["point"] == "line":
        where0["func"] = fault["at"]["func"]

    for st_, step_, name_ in sim.alias_violations[:1]:

        if st_ == "seed":

            V.append(Violation("state-mutated-in-place", f"the run wrote into '{name_}' of the Solution it was seeded with: the record of the finished run it continues has been altered", quantity=name_, seed=True))

            continue
        # the runner would save exactly this array if the step were abandoned now
        V.append(Violation("state-mutated-in-place", f"update {st_}{step_} modified the array of '{name_}' held by the runner in place: a stop inside this step records a state that was never accepted", quantity=name_))
    # (5) liveness of the exclusive-create loop is enforced by the seam counter (HarnessError)
    # (1) handles
    if h.h5_open_after != h.h5_open_before:
        V.append(Violation("handle-leak", f"{h.h5_open_after - h.h5_open_before} HDF5 object(s) left open after solve() {h.outcome}", **where0))
        # close them so that the next run in this worker starts clean
        import gc

        import h5py

        gc.collect()
        for obj in gc.get_objects():
            try:
                if isinstance(obj, h5py.File) and obj.id.valid:
                    obj.close()
            except Exception:
                pass
    # (2) directory
    before = h.fs_before
    after = h.fs_after
    new = {p: v for p, v in after.items() if p not in before}
    gone = [p for p in before if p not in after]
    changed = [p for p in before if p in after and before[p] != after[p]]
    if gone or changed:
        V.append(Violation("preexisting-modified", f"pre-existing entries modified: gone={gone} changed={changed}", **where0))
    new_files = sorted(p for p in new if not p.endswith("/"))
    tmp_left = [p for p in new_files if p.endswith(".tmp") or "/systmp/" in ("/" + p)]
    if tmp_left:
        V.append(Violation("tmp-left", f"temporary files left behind: {tmp_left}", stale_tmp=any(n.endswith(".tmp") for n in pre), **where0))
    for td in h.tempdirs:
        if os.path.exists(td):
            V.append(Violation("tempdir-left", "temporary directory still exists after solve()", **where0))
    outputs = [p for p in new_files if p not in tmp_left]
    entered = any(e[0] == "dh" and e[1] == "enter" for e in h.events)
    if out is None:
        if outputs:
            V.append(Violation("stray-output", f"no output path requested but files were left: {outputs}", **where0))
    else:
        if entered and len(outputs) != 1:
            V.append(Violation("output-count", f"expected exactly one new output file, found {outputs}", stale_tmp=any(n.endswith(".tmp") for n in pre), **where0))
    # readable
    out_path = h.out_path if (out is not None and h.out_path and os.path.exists(h.out_path)) else None
    file_frames = None
    if out is not None and entered:
        if out_path is None:
            V.append(Violation("output-missing", "the output file does not exist after the stop", **where0))
        else:
            try:
                file_frames, fixed = recorder.read_frames(out_path)
            except Exception as e:
                V.append(Violation("output-unreadable", f"output cannot be opened/read: {type(e).__name__}: {str(e)[:80]}", **where0))
    if fi is None:
        # the fault point was never reached: the run must equal its twin
        if h.fingerprint() != tw.fingerprint() and not scn["faults"]:
            pass
        return V, "no-fault"

    # ---- classification of the stop
    kind = fi["kind"]
    stage = fi["stage"]
    i = fi["loop_step"]
    region = where0["region"]
    cancel = kind == "sigint"
    in_loop_try = True
    # (4) outcome
    eof = cancel and h.outcome == "raised:EOFError" and scn["options"].get("pause_on_interrupt") and not scn["observer"].get("answers")
    if eof:
        # input() hit end-of-file while asking whether to continue: an error stop
        # (cleanliness and frames-before-stop are still checked below)
        h.probe("pause_eof")
        cancel = False
    elif not cancel and fault["at"].get("func") == "solve_for_psi_squared" and h.exc_obj is not getattr(_payload, "last", None):
        # the documented update treats any exception raised by its arithmetic as a refusal
        # (retry with a smaller dt): the fault was absorbed, only cleanliness is checked
        h.probe("fault_absorbed_as_refusal")
        return V, "absorbed"
    elif not cancel:
        if not h.outcome.startswith("raised") or h.exc_obj is not getattr(_payload, "last", None):
            V.append(Violation("error-not-propagated", f"injected {kind} at {fi['tag']} ended as {h.outcome} {h.exc}", **where0))
    else:
        if resumed:
            return V, "resumed"
        if stage == "T":
            if h.outcome != "none":
                V.append(Violation("cancel-thermal", f"cancellation during thermalisation ended as {h.outcome} {h.exc}, expected None", **where0))
        else:
            nothing_recorded = not any(fr["completed"] for fr in h.frames) and (i == 0)
            if nothing_recorded and h.outcome == "none":
                h.probe("cancel_before_first_frame")
            elif h.outcome != "solution":
                V.append(Violation("cancel-no-solution", f"cancellation at step {i} ({fi['tag']}) ended as {h.outcome} {h.exc}, expected a partial solution", step=i, i_mod_k=i % k, **where0))

    # (3) frames: required / optional labels
    if stage == "T":
        required, optional = [], []
    else:
        if region == "update" or (fault["at"]["point"] == "save.after"):
            required = list(range(0, i + 1, k))
        elif fault["at"]["point"] == "save.before":
            required = list(range(0, i, k))
        else:  # inside the writer
            # which frame was being written? the loop frame (i % k == 0) or the final frame
            required = list(range(0, i, k))
            if fault["at"]["point"] == "line" and i % k != 0:
                required = list(range(0, i + 1, k))
        optional = [i]
    tw.expected_rows = recorder.expected_rows(tw, tw.solver, stub=stub)
    frames_sources = []
    cap = [fr for fr in h.frames if fr["completed"]]
    frames_sources.append(("captured", cap))
    if file_frames is not None:
        frames_sources.append(("file", file_frames))
    names = None
    twf = [fr for fr in tw.frames if fr["completed"]]
    if twf:
        names = list(twf[0]["data"])
        rs_names = list(twf[-1]["running"]) if twf[-1]["running"] is not None else (list(tw.runner_names) if hasattr(tw, "runner_names") else [])
    for source, frames in frames_sources:
        labels = [fr["step"] for fr in frames]
        missing = [s for s in required if s not in labels]
        extra = [s for s in labels if s not in required and s not in optional]
        if len(set(labels)) != len(labels):
            V.append(Violation("frame-duplicate", f"{source}: duplicate frame labels {labels}", **where0))
        if missing or extra:
            V.append(Violation("frames-before-stop", f"{source}: frames {labels}; required {required} optional {optional} (stop at step {i}, k={k})", i_mod_k=i % k, **where0))
        if source == "file" and names is not None:
            for fr in frames:
                why = complete_frame(fr, names, fr["step"] not in (0, None), rs_names)
                if why:
                    V.append(Violation("partial-frame", f"file: frame {fr['number']} (step {fr['step']}) is incomplete: {why}", i_mod_k=(i % k), frame_step=fr["step"], **where0))
                    break
        ok_frames = [fr for fr in frames if fr["step"] is not None and (names is None or complete_frame(fr, names, fr["step"] != 0, rs_names) is None)]
        last = max([fr["step"] for fr in ok_frames], default=0)
        # content / records / times of what is there, against the twin (same labels -> same states)
        sub = [fr for fr in ok_frames]
        Vc, final, t_model = recorder.check_frames(tw, sub, k, scn["options"]["solve_time"], stopped_at=last, source=source)
        for v in Vc:
            if v["rule"] in ("frame-labels", "frame-numbers"):
                continue
            v["where"].update(where0)
            v["where"]["i_mod_k"] = i % k
            V.append(v)
    # cancellation: a usable partial solution
    if cancel and stage == "S" and h.solution is not None:
        sol = h.solution
        try:
            data = sol.tdgl_data
            times = sol.times
            dyn = sol.dynamics
            ok = data is not None and dyn is not None
        except Exception as e:
            ok = False
            V.append(Violation("solution-unusable", f"partial solution attributes raise {type(e).__name__}: {str(e)[:80]}", **where0))
        if ok:
            cap_ok = [fr for fr in cap]
            # a frame whose write was interrupted after its last dataset is complete in the file
            # although the writer never returned: the optional frame i
            if times is not None and len(times) == len(cap_ok) + 1 and h.frames and not h.frames[-1]["completed"] and h.frames[-1]["step"] == i:
                cap_ok = cap_ok + [h.frames[-1]]
            last = max([fr["step"] for fr in cap_ok], default=0)
            Vs = recorder.check_solution(tw, sol, cap_ok, last, recorder.model_times([recorder.used_dt(u) for u in tw.stages["S"] if u["out"] is not None]))
            for v in Vs:
                v["where"].update(where0)
                v["where"]["i_mod_k"] = i % k
                V.append(v)
            if int(data.step) != len(cap_ok) - 1 and cap_ok:
                pass
        if out_path is not None:
            try:
                import tdgl

                re = tdgl.Solution.from_hdf5(out_path)
                _ = re.times, re.dynamics.dt, re.tdgl_data.psi
            except Exception as e:
                V.append(Violation("solution-not-reloadable", f"partial solution cannot be reloaded from disk: {type(e).__name__}: {str(e)[:80]}", **where0))
    return V, "fired"


def resolve_line_fault(scn, tw):
    for f in scn["faults"]:
        at = f["at"]
        if at["point"] == "line":
            n = tw.line_counts.get(at["func"], 0)
            if n == 0:
                raise Discard(f"function {at['func']} never runs in this scenario")
            at["ordinal"] = min(n - 1, int(at["frac"] * n))
            if at.get("final_save"):
                calls = max(1, sum(1 for fr in tw.frames if fr["completed"] and fr["step"] > 0))
                per_call = max(1, n // max(1, calls + 1))
                at["ordinal_rel"] = min(per_call - 1, int(at["frac"] * per_call))


def run(scn):
    twin_scn = copy.deepcopy(scn)
    twin_scn["faults"] = []
    sim_t, tw = run_scenario(twin_scn, trace="count")
    try:
        if not (tw.outcome == "solution"):
            ob_ = scn.get("observer", {})
            if base.expected_library_error(tw) or tw.outcome == "capped" or not tw.outcome.startswith("raised"):
                raise Discard(f"twin did not complete: {tw.outcome}")
            if ob_.get("preexisting") and ob_.get("output") is not None:
                # nothing was injected into this run; all that is special about it is that names around the
                # requested output path are taken ("a fresh name is chosen")
                v = Violation("collision-run-failed", f"a run into which nothing was injected, with pre-existing files {sorted(ob_['preexisting'])} around its output path, raised {tw.exc[0]}: {tw.exc[1][:100]}", exc=tw.exc[0])
                return base.summarize(scn, tw, [v], True, ("twin-failed", tw.outcome), extra={"status": "twin-failed"})
            raise Discard(f"rejected:fault-free twin raised {tw.exc[0]}: {tw.exc[1][:60]}")
        resolve_line_fault(scn, tw)
        sim, h = run_scenario(scn)
        try:
            V, status = oracle(scn, sim, h, tw)
            seen = set()
            Vd = []
            for v in V:
                if v["rule"] not in seen:
                    seen.add(v["rule"])
                    Vd.append(v)
            fi = h.fire_info
            fault = scn["faults"][0] if scn["faults"] else None
            region = region_of(fault["at"]) if fault else None
            sig = (
                scn["meta"]["engine"],
                fault["kind"] if fault else None,
                fault["at"]["point"] if fault else None,
                fault["at"].get("func") if fault else None,
                fi["stage"] if fi else None,
                (fi["loop_step"] % scn["options"]["save_every"] == 0) if fi and fi["loop_step"] is not None else None,
                scn["observer"]["output"] is None,
                tuple(sorted(os.path.basename(p) for p in scn["observer"].get("preexisting", {}))),
                tuple(scn["observer"].get("answers", [])),
                h.outcome,
                status,
            )
            extra = {"status": status}
            if fi is not None:
                h.probe("stop:" + ("cancel" if fi["kind"] == "sigint" else "error") + ":" + fi["stage"] + ":" + str(region))
                if fi["loop_step"] == 0:
                    h.probe("stop_at_step_0")
            if any(n.endswith(".tmp") for n in scn["observer"].get("preexisting", {})):
                h.probe("stale_tmp")
            if scn["observer"].get("preexisting"):
                h.probe("name_collision")
            res = base.summarize(scn, h, Vd, fi is not None and region in ("update", "writer"), sig, extra=extra)
            res["grid_cell"] = scn.get("meta", {}).get("grid_cell")
            res["fired"] = fi is not None
            return res
        finally:
            sim.cleanup()
    finally:
        sim_t.cleanup()


def shrink(scn):
    for s in base.common_shrinks(scn):
        if not s.get("faults") and scn.get("faults"):
            continue
        yield s
    o = scn["options"]
    if scn["observer"].get("answers"):
        yield base.with_path(scn, ["observer", "answers"], [])
    if o.get("pause_on_interrupt"):
        s = base.with_path(scn, ["options", "pause_on_interrupt"], False)
        s["observer"]["answers"] = []
        yield s
    for k2 in (1, 2):
        if o["save_every"] > k2:
            yield base.with_path(scn, ["options", "save_every"], k2)
    if scn.get("physics") == "stub":
        dts = scn["stub"]["dts_S"]
        for N2 in (1, 2, 3):
            if scen.seq_sum(dts, N2) < o["solve_time"]:
                yield base.with_path(scn, ["options", "solve_time"], scen.seq_sum(dts, N2))
    f = scn["faults"][0] if scn.get("faults") else None
    if f and f["at"]["point"] != "line" and f["at"].get("step", 0) > 0:
        s = copy.deepcopy(scn)
        s["faults"][0]["at"]["step"] = max(0, f["at"]["step"] - scn["options"]["save_every"])
        yield s
        s = copy.deepcopy(scn)
        s["faults"][0]["at"]["step"] = 0
        yield s
    if f and f["kind"] in ("mem", "enospc"):
        s = copy.deepcopy(scn)
        s["faults"][0]["kind"] = "exc"
        yield s


def evidence_extra(results):
    import collections

    st = collections.Counter(str(r["stats"].get("status")) for r in results if r["discard"] is None)
    cells = {r["grid_cell"]: r for r in results if r.get("grid_cell") is not None and r["discard"] is None}
    fired = sum(1 for r in cells.values() if r.get("fired"))
    return {
        "fault_status": dict(st),
        "enumerated_crash_points": {
            "cells": GRID_SIZE,
            "executed_and_checked": len(cells),
            "fault_fired": fired,
            "complete": len(cells) == GRID_SIZE,
            "dimensions": "k {1,2,3} x N {1..5} x point {update.before, update.after, save.before, save.after} x step 0..N x {RuntimeError, KeyboardInterrupt} x output {temp dir, explicit path}; a save.* point fires only at steps where a frame is written",
        },
    }
