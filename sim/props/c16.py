"""C16 - parameter arithmetic means pointwise arithmetic of its operands (solver-facing part).

The drive generator hands random expression trees (depth <= 3; leaves: 3-D vector parameter,
time-dependent scalar parameters, int, float; operators + - * / ** in both operand orders,
shared operands) to the solver like a plain parameter.  Oracle: an independent interpreter of
the tree; the composite's time_dependent flag; no exception from construction / solve() /
cache clearing; caches empty after the run; stored tree reloads equal and evaluates equal."""
import copy
import os

import numpy as np
from ..common import aeq  # noqa: E402

from .. import build as B
from .. import scen
from ..checkers import get_ctx
from ..common import Discard, Violation, max_err, substream
from . import base

ID = "C16"
LEVEL = "exploration"
RULE = (
    "applied vector potential = random expression tree of depth <= 3 over {ConstantField / gauge-gradient vector parameters, "
    "LinearRamp / piecewise / sinusoidal time-dependent scalar parameters, int, float} with + - * / ** in both operand orders and "
    "operands shared between branches; handed to real solver runs (adaptive, thermalisation, repeated times); every update's applied "
    "potential is compared with an independent interpreter; non-trivial = the tree has at least one operator and the run took >= 3 "
    "updates (or was rejected, which is itself the violation); time-dependent trees are additionally put through a fixed evaluation "
    "history (repeated times, coordinates rewritten in place, fresh buffers); equality is checked as structural in both directions over the same operand objects; distinct = distinct tree digests"
)
LIFECYCLES = {}  # shared object life cycles (scen.add_lifecycles) with their default rates
BUDGET = {"quick": {"runs": 500, "chunk": 10}, "thorough": {"runs": 60000, "chunk": 20}}
COMPONENTS = {"real": ["tdgl.Parameter / CompositeParameter (operators, caching, _clear_cache, pickling)", "tdgl.sources.*", "TDGLSolver (evaluation per step, cache clearing)", "Solution save/reload of the parameter"], "stub": ["wall clock"]}
ASSUMPTIONS = ["Only the part of C16 a run can exhibit is decided: the algebra over all expression trees and argument shapes is an input-space statement (DESIGN.md C16)."]

OPS = ["+", "-", "*", "/", "**"]


def gen_T(rnd, T, share):
    k = rnd.choice(["ramp", "pw", "sin"])
    if k == "ramp":
        node = {"leaf": "ramp", "tmin": scen.r3(rnd.choice([0.0, 0.2]) * T), "tmax": scen.r3(rnd.choice([0.5, 1.0, 2.0]) * T), "initial": rnd.choice([1.0, 0.5, 2.0]), "final": rnd.choice([2.0, 1.5, 3.0])}
    elif k == "pw":
        n = rnd.choice([2, 3])
        node = {"leaf": "pw", "times": sorted(scen.r3(rnd.uniform(0.1, 0.9) * T) for _ in range(n - 1)), "values": [rnd.choice([1.0, 2.0, 0.5, 1.5]) for _ in range(n)]}
    else:
        node = {"leaf": "sin", "omega": scen.r3(rnd.choice([1.0, 5.0]) / T), "phase": rnd.choice([0.0, 0.7]), "offset": 2.0}
    if share is not None and rnd.random() < 0.3:
        node["share"] = share
    return node


def gen_num(rnd):
    if rnd.random() < 0.5:
        return {"leaf": "num", "v": rnd.choice([2, 3, 1]), "int": True}
    return {"leaf": "num", "v": rnd.choice([0.5, 1.5, 2.0, 0.25]), "int": False}


def gen_S(rnd, T, depth, share):
    """Scalar expression (always positive and bounded away from zero)."""
    if depth <= 0 or rnd.random() < 0.4:
        return gen_T(rnd, T, share) if rnd.random() < 0.7 else gen_num(rnd)
    op = rnd.choice(["+", "*", "/", "**", "+", "*"])
    l = gen_S(rnd, T, depth - 1, share)
    r = gen_S(rnd, T, depth - 1, share)
    if op == "**":
        r = {"leaf": "num", "v": rnd.choice([2, 1]), "int": rnd.random() < 0.5} if rnd.random() < 0.7 else r
        if "leaf" in l and l["leaf"] == "num" and "leaf" in r and r["leaf"] == "num":
            l = gen_T(rnd, T, share)
    if "leaf" in l and l["leaf"] == "num" and "leaf" in r and r["leaf"] == "num":
        r = gen_T(rnd, T, share)
    return {"op": op, "l": l, "r": r}


def gen_V(rnd, T, depth, B0, share):
    if depth <= 0 or rnd.random() < 0.25:
        r = rnd.random()
        if r < 0.2:
            # time- AND position-dependent vector leaf (its cache is keyed by coordinates and time)
            node = {"leaf": "wave", "a": scen.r3(B0 * rnd.choice([0.5, 1.0])), "kx": rnd.choice([0.7, 1.3, 2.0]), "ky": rnd.choice([0.5, 1.1]), "w": scen.r3(rnd.choice([0.5, 3.0]) / T)}
        elif r < 0.85:
            node = {"leaf": "const_field", "B": scen.r3(B0 * rnd.choice([1.0, 0.5, -1.0, 2.0]))}
        else:
            node = {"leaf": "gauge", "c": [rnd.choice([0.05, -0.1]), rnd.choice([0.0, 0.07])], "q": [0.0, 0.0, 0.0]}
        if share is not None and rnd.random() < 0.3:
            node["share"] = share + "V"
        return node
    form = rnd.choice(["V+V", "V-V", "S*V", "V*S", "V/S", "V**n", "n*V", "V*n", "V+V", "(V**n)**m", "V*V"])
    if form == "V*V":
        # pointwise product of two position-dependent operands (a per-point weight times a field): one of
        # them is often the time- and position-dependent leaf, the other a time-independent Parameter
        a = gen_V(rnd, T, depth - 1, B0, share)
        b = gen_V(rnd, T, 0, B0, share)
        if rnd.random() < 0.6:
            b = {"leaf": "wave", "a": rnd.choice([0.5, 1.0, 2.0]), "kx": rnd.choice([0.7, 1.3, 2.0]), "ky": rnd.choice([0.5, 1.1]), "w": scen.r3(rnd.choice([0.5, 3.0]) / T)}
            if rnd.random() < 0.4:
                b = {"op": "*", "l": gen_T(rnd, T, share), "r": {"leaf": "gauge", "c": [rnd.choice([0.8, -1.2]), rnd.choice([0.5, 1.1])], "q": [0.3, 0.0, -0.2]}}
        return {"op": "*", "l": a, "r": b} if rnd.random() < 0.5 else {"op": "*", "l": b, "r": a}
    if form == "(V**n)**m":
        # a power of an even power: the inner value is >= 0 whatever the sign of V, so the fractional
        # outer exponent is legal - and (V**n)**m is not V**(n*m) where V < 0
        n, m = rnd.choice([(2, 0.5), (2, 1.5), (4, 0.25), (2, 2)])
        inner = {"op": "**", "l": gen_V(rnd, T, depth - 2, B0, share), "r": {"leaf": "num", "v": n, "int": True}}
        return {"op": "**", "l": inner, "r": {"leaf": "num", "v": m, "int": False}}
    if form in ("V+V", "V-V"):
        return {"op": form[1], "l": gen_V(rnd, T, depth - 1, B0, share), "r": gen_V(rnd, T, depth - 1, B0, share)}
    if form == "S*V":
        return {"op": "*", "l": gen_S(rnd, T, depth - 1, share), "r": gen_V(rnd, T, depth - 1, B0, share)}
    if form == "V*S":
        return {"op": "*", "l": gen_V(rnd, T, depth - 1, B0, share), "r": gen_S(rnd, T, depth - 1, share)}
    if form == "V/S":
        return {"op": "/", "l": gen_V(rnd, T, depth - 1, B0, share), "r": gen_S(rnd, T, depth - 1, share)}
    if form == "V**n":
        return {"op": "**", "l": gen_V(rnd, T, depth - 1, B0, share), "r": {"leaf": "num", "v": rnd.choice([1, 2, 3]), "int": True}}
    if form == "n*V":
        return {"op": rnd.choice(["*", "+", "-"]), "l": gen_num(rnd), "r": gen_V(rnd, T, depth - 1, B0, share)}
    return {"op": rnd.choice(["*", "/", "+", "-"]), "l": gen_V(rnd, T, depth - 1, B0, share), "r": gen_num(rnd)}


def unify_shared(node, first):
    """Nodes carrying the same share label become the same operand (identical content)."""
    if "leaf" in node:
        lab = node.get("share")
        if lab is None:
            return node
        lab = lab + ":" + ("T" if node["leaf"] in ("ramp", "pw", "sin", "cos") else ("W" if node["leaf"] == "wave" else "V"))
        node = dict(node, share=lab)
        return copy.deepcopy(first.setdefault(lab, node))
    return {"op": node["op"], "l": unify_shared(node["l"], first), "r": unify_shared(node["r"], first)}


def depth_of(node):
    return 0 if "leaf" in node else 1 + max(depth_of(node["l"]), depth_of(node["r"]))


def walk_spec(node, out):
    out.append(node)
    if "leaf" not in node:
        walk_spec(node["l"], out)
        walk_spec(node["r"], out)
    return out


def gen(seed, idx, tier):
    rnd = substream(seed, idx, "c16")
    scn = scen.gen_physics(
        rnd,
        screening=False,
        steps=(3, 12),
        dt_choices=[1e-3, 0.01, 0.05],
        n_terminals=rnd.choice([0, 0, 2]),
        field_kinds=("const",),
        eps_kinds=("none",),
        units=rnd.random() < 0.5,
        refuse=0.1,
    )
    T = scn["options"]["solve_time"]
    B0 = scn["drive"]["field"]["B"] * 0.5
    share = "s" if rnd.random() < 0.5 else None
    depth = rnd.choice([1, 1, 2, 2, 3])
    tree = unify_shared(gen_V(rnd, T, depth, B0, share), {})
    # sibling leaves: two DIFFERENT time-dependent functions with exactly the same keyword arguments in one
    # expression (cos and sin of the same drive: a rotating field) - whatever identifies a leaf's values by
    # its arguments alone confuses them (drawn from a stream of its own)
    r2 = substream(seed, idx, "c16-sibling-leaves")
    tl = [n for n in walk_spec(tree, []) if n.get("leaf") in ("ramp", "pw", "sin") and "share" not in n]
    kw = {"omega": scen.r3(r2.choice([1.0, 5.0]) / T), "phase": r2.choice([0.0, 0.7]), "offset": 2.0}
    if len(tl) >= 2 and r2.random() < 0.6:
        for n_, leaf_ in zip(tl[:2], ("sin", "cos") if r2.random() < 0.5 else ("cos", "sin")):
            n_.clear()
            n_.update(dict(kw, leaf=leaf_))
    elif len(tl) == 1 and r2.random() < 0.4:
        n_ = tl[0]
        n_.clear()
        n_.update({"op": r2.choice(["+", "*"]), "l": dict(kw, leaf="sin"), "r": dict(kw, leaf="cos")})
        if depth_of(tree) > 3:
            n_.clear()
            n_.update(dict(kw, leaf="cos"))
    scn["drive"]["field"] = {"kind": "tree", "tree": tree}
    scn["observer"] = {"output": {"path": "out.h5", "absolute": True}} if rnd.random() < 0.5 else {"output": None}
    scn["meta"]["depth"] = depth_of(tree)
    return scn


class TreeChecker:
    def __init__(self):
        self.checked = 0
        self.max_err = 0.0

    def on_step(self, sim, cur):
        c = get_ctx(sim)
        solver = sim.h.solver
        if not solver.dynamic_vector_potential:
            return []
        got = np.asarray(cur["out"]["applied_vector_potential"])
        want = c.A_applied(cur["time"])
        scale = float(np.max(np.abs(want), initial=0.0)) + 1e-300
        err = max_err(got, want) / scale
        self.max_err = max(self.max_err, err)
        self.checked += 1
        if err > 1e-12:
            return [Violation("value", f"step {cur['step']} ({cur['stage']}) t={cur['time']:.6g}: applied potential from the composite differs from the interpreter's value by {err:.3g} relative", step=cur["step"], stage=cur["stage"])]
        return []


SWAPS = {"sin": "cos", "cos": "sin", "zeros_like": "ones_like", "ones": "zeros", "real": "imag", "atleast_1d": "asarray", "minimum": "maximum", "maximum": "minimum"}


def twin_function(func):
    """A different function with the same bytecode and the same constants: one global / attribute name it
    refers to is swapped for a sibling (np.sin <-> np.cos, ...), so it computes something else."""
    import types

    code = getattr(func, "__code__", None)
    if code is None:
        return None
    names = list(code.co_names)
    for i, nm in enumerate(names):
        if nm in SWAPS:
            names[i] = SWAPS[nm]
            return types.FunctionType(code.replace(co_names=tuple(names)), func.__globals__, func.__name__, func.__defaults__, func.__closure__)
    return None


def rebuild(obj, target, replacement):
    """The same expression with the leaf object `target` replaced."""
    if obj is target:
        return replacement
    if hasattr(obj, "left") and hasattr(obj, "operator"):
        return obj.operator(rebuild(obj.left, target, replacement), rebuild(obj.right, target, replacement))
    return obj


def walk_params(obj, out):
    import tdgl

    if isinstance(obj, tdgl.Parameter):
        out.append(obj)
        if hasattr(obj, "left"):
            walk_params(obj.left, out)
            walk_params(obj.right, out)
    return out


def post(sim, h):
    import cloudpickle
    import tdgl

    V = []
    scn = sim.scn
    tree = scn["drive"]["field"]["tree"]
    td = B.tree_time_dependent(tree)
    where = dict(depth=depth_of(tree), time_dependent=td)
    if h.outcome.startswith("rejected"):
        tb = h.exc[1]
        V.append(Violation("construction-raised", f"handing the expression to the solver raised {h.exc[0]}: {tb[:120]}", exc=h.exc[0], **where))
        return V
    if h.outcome.startswith("raised") and not base.expected_library_error(h) and not base.injected(h.exc_obj):
        V.append(Violation("solve-raised", f"solve() raised {h.exc[0]}: {h.exc[1][:120]}", exc=h.exc[0], **where))
    A = sim.A_obj
    if isinstance(A, tdgl.Parameter):
        try:
            flag = A.time_dependent
        except Exception as e:
            V.append(Violation("flag-raised", f"time_dependent raised {type(e).__name__}", **where))
            flag = td
        if bool(flag) != td:
            V.append(Violation("time-dependent-flag", f"composite.time_dependent is {flag}, some leaf is time-dependent: {td}", **where))
        # static potential: the fixed value
        c = get_ctx(sim)
        if not td and h.fixed is not None and "applied_vector_potential" in h.fixed:
            want = c.A_applied(None)
            err = max_err(h.fixed["applied_vector_potential"], want) / (float(np.max(np.abs(want), initial=0.0)) + 1e-300)
            if err > 1e-12:
                V.append(Violation("value", f"static applied potential differs from the interpreter's value by {err:.3g} relative", step=-1, stage="fixed"))
        # caches are empty after the run
        if h.outcome in ("solution", "none"):
            dirty = [repr(p)[:60] for p in walk_params(A, []) if len(p._cache)]
            if dirty:
                V.append(Violation("cache-not-cleared", f"{len(dirty)} operand cache(s) still populated after the run: {dirty[:2]}", **where))
        # pickle / reload
        rs = np.random.default_rng(7)
        x, y = rs.uniform(-1, 1, 5), rs.uniform(-1, 1, 5)
        z = np.zeros(5)
        t = 0.37 * scn["options"]["solve_time"]
        kw = {"t": t} if td else {}

        def same(P, label):
            try:
                if not (P == A):
                    V.append(Violation(label + "-unequal", f"{label} copy does not compare equal to the original", **where))
                if bool(P.time_dependent) != td:
                    V.append(Violation(label + "-flag", f"{label} copy has time_dependent={P.time_dependent}", **where))
                a = np.asarray(P(x, y, z, **kw))
                b = np.asarray(A(x, y, z, **kw))
                if a.shape != b.shape or not aeq(a, b):
                    V.append(Violation(label + "-value", f"{label} copy evaluates differently (max |diff| {max_err(a, b):.3g})", **where))
            except Exception as e:
                V.append(Violation(label + "-raised", f"using the {label} copy raised {type(e).__name__}: {str(e)[:100]}", exc=type(e).__name__, **where))

        # evaluation history on the composite a user holds after the run: repeated times,
        # coordinates rewritten in place in the same buffers, fresh buffers (cache keys)
        if td or hasattr(A, "left"):
            kept = []  # results the caller still holds: (array as returned, copy taken when it was returned, call)
            n = 40
            xi = scn["device"]["layer"]["xi"]
            sets = [(rs.uniform(-2, 2, n) * xi, rs.uniform(-2, 2, n) * xi) for _ in range(3)]
            xb, yb, zb = np.empty(n), np.empty(n), np.zeros(n)
            t0, t1 = 0.3 * scn["options"]["solve_time"], 0.7 * scn["options"]["solve_time"]
            plan = [(0, t0, True), (1, t0, True), (1, t1, True), (0, t1, False), (2, t1, True), (2, t0, True), (0, t0, False), (1, t0, True)]
            ctx2 = get_ctx(sim).tctx
            for j, (k, tt, inplace) in enumerate(plan):
                if inplace:
                    xb[:] = sets[k][0]
                    yb[:] = sets[k][1]
                    args = (xb, yb, zb)
                else:
                    args = (sets[k][0].copy(), sets[k][1].copy(), np.zeros(n))
                if not td:
                    tt = None
                try:
                    ret = A(*args, t=tt) if td else A(*args)
                    got = np.asarray(ret, dtype=float)
                except Exception as e:
                    V.append(Violation("evaluation-raised", f"evaluating the composite raised {type(e).__name__}: {str(e)[:80]}", **where))
                    break
                want = np.asarray(B.eval_tree(tree, ctx2, sets[k][0].copy(), sets[k][1].copy(), np.zeros(n), tt), dtype=float)
                want = np.broadcast_to(want, got.shape) if want.ndim < got.ndim or want.shape != got.shape and want.size == 1 else want
                sc = float(np.max(np.abs(want), initial=0.0)) + 1e-300
                if got.shape != want.shape or max_err(got, want) / sc > 1e-12:
                    V.append(Violation("evaluation-history", f"evaluation {j} of the history (points set {k}, t={tt}, {'same buffers rewritten in place' if inplace else 'fresh arrays'}) differs from the pointwise combination of the operands by {max_err(got, want) / sc:.3g} relative", call=j, inplace=inplace, **where))
                    break
                # a value handed to the caller is the caller's: later evaluations must not change it (a table
                # of the drive over time, a finite difference in t)
                stale = next((j0 for r0, c0, j0 in kept if isinstance(r0, np.ndarray) and not aeq(r0, c0)), None)
                if stale is not None:
                    V.append(Violation("result-overwritten", f"the array returned by evaluation {stale} of the history was changed by evaluation {j} of the same expression", call=j, **where))
                    break
                if isinstance(ret, np.ndarray):
                    kept.append((ret, ret.copy(), j))
            for prm in walk_params(A, []):
                prm._cache.clear()
        try:
            P = cloudpickle.loads(cloudpickle.dumps(A))
            same(P, "pickled")
        except Exception as e:
            V.append(Violation("pickle-raised", f"pickling raised {type(e).__name__}: {str(e)[:100]}", **where))
        if h.out_path and os.path.exists(h.out_path) and h.outcome == "solution":
            try:
                re = tdgl.Solution.from_hdf5(h.out_path)
                same(re.applied_vector_potential, "reloaded")
            except Exception as e:
                V.append(Violation("reload-raised", f"reloading the solution raised {type(e).__name__}: {str(e)[:100]}", exc=type(e).__name__, **where))
        # equality is structural: the same operand objects combined with another operator (at the
        # root, and one level down inside a larger expression) are a different expression; combined
        # with the same operator they are the same expression
        import operator as _op

        from tdgl.parameter import CompositeParameter

        import numbers as _numbers

        # ... and a leaf is its function: the same expression over a leaf that wraps ANOTHER function (same
        # signature, same keyword arguments, same literals, even the same bytecode - it just calls a sibling
        # numpy routine) is a different expression and evaluates differently
        if isinstance(A, tdgl.Parameter) and not V:
            for leaf in [q_ for q_ in walk_params(A, []) if not hasattr(q_, "left")][:4]:
                tf = twin_function(getattr(leaf, "func", None))
                if tf is None:
                    continue
                try:
                    leaf2 = tdgl.Parameter(tf, time_dependent=bool(leaf.time_dependent), **dict(leaf.kwargs))
                    A2 = rebuild(A, leaf, leaf2)
                    if bool(A2 == A) or bool(A == A2):
                        V.append(Violation("equality-not-structural", f"the expression compares equal to the same expression built over a leaf that wraps a different function ({leaf.func.__name__}: same bytecode and constants, another numpy routine)", where_="leaf-function", **where))
                        break
                except Exception as e:
                    tb_ = __import__("traceback").extract_tb(e.__traceback__)
                    if not any("/tdgl/" in f_.filename for f_ in tb_):
                        raise
                    V.append(Violation("equality-raised", f"comparing with a sibling-leaf expression raised {type(e).__name__}: {str(e)[:100]}", **where))
                    break
        if isinstance(A, CompositeParameter) and not all(isinstance(x_, (tdgl.Parameter, _numbers.Number)) for x_ in (A.left, A.right)):
            V.append(Violation("operands-corrupted", f"after pickling / reloading copies, the operands of the ORIGINAL composite are {type(A.left).__name__} and {type(A.right).__name__}", **where))
        elif isinstance(A, CompositeParameter):
            names = {_op.add: "+", _op.sub: "-", _op.mul: "*", _op.truediv: "/", _op.pow: "**"}
            for o, sym in names.items():
                try:
                    Q = o(A.left, A.right)
                    same_structure = o is A.operator
                    pairs = [("root", Q, A), ("nested", Q * 2, A * 2), ("nested-right", 3 - Q, 3 - A)]
                    for lab, q, a in pairs:
                        if bool(q == a) != same_structure:
                            V.append(Violation("equality-not-structural", f"(left {sym} right) {'!=' if same_structure else '=='} (left {names.get(A.operator, '?')} right) built from the same operand objects ({lab})", where_=lab, **where))
                            break
                except Exception as e:
                    tb_ = __import__("traceback").extract_tb(e.__traceback__)
                    if not any("/tdgl/" in f_.filename for f_ in tb_):
                        raise
                    V.append(Violation("equality-raised", f"building / comparing (left {sym} right) raised {type(e).__name__}: {str(e)[:100]}", exc=type(e).__name__, **where))
        for p in walk_params(A, []):
            p._cache.clear()
        # last (it edits the user's operand): an operand is retuned through its keyword arguments after the
        # expression was written; the expression means the arithmetic of its operands as they are now
        if td and not V and isinstance(A, CompositeParameter):
            tree2 = copy.deepcopy(tree)
            pairs_ = []
            A2 = B.build_tree(tree2, get_ctx(sim).tctx, registry=pairs_)  # the user writes the expression ...
            target = next((o_ for n_, o_ in pairs_ if n_["leaf"] in ("ramp", "sin", "wave") and isinstance(o_, tdgl.Parameter) and getattr(o_, "time_dependent", False)), None)
            if target is not None and isinstance(A2, CompositeParameter):
                key = {"ramp": "final", "sin": "offset", "wave": "w"}[next(n_["leaf"] for n_, o_ in pairs_ if o_ is target)]
                if key in target.kwargs:
                    new_val = float(target.kwargs[key]) * 1.5 + 0.25
                    target.kwargs[key] = new_val  # ... and retunes the operand object it holds afterwards
                    for n_, o_ in pairs_:
                        if o_ is target:
                            n_[key] = new_val
                    n = 30
                    xi = scn["device"]["layer"]["xi"]
                    xs_, ys_ = rs.uniform(-2, 2, n) * xi, rs.uniform(-2, 2, n) * xi
                    for tt in (0.3 * scn["options"]["solve_time"], 0.8 * scn["options"]["solve_time"]):
                        try:
                            got = np.asarray(A2(xs_.copy(), ys_.copy(), np.zeros(n), t=tt), dtype=float)
                        except Exception as e:
                            V.append(Violation("evaluation-raised", f"evaluating the composite after an operand was retuned raised {type(e).__name__}: {str(e)[:80]}", **where))
                            break
                        want = np.asarray(B.eval_tree(tree2, get_ctx(sim).tctx, xs_.copy(), ys_.copy(), np.zeros(n), tt), dtype=float)
                        want = np.broadcast_to(want, got.shape) if want.shape != got.shape and (want.ndim < got.ndim or want.size == 1) else want
                        sc = float(np.max(np.abs(want), initial=0.0)) + 1e-300
                        if got.shape != want.shape or max_err(got, want) / sc > 1e-12:
                            V.append(Violation("operand-retuned", f"after the keyword argument '{key}' of a time-dependent operand was changed, the expression written earlier (t={tt:.4g}) differs from the arithmetic of its operands by {max_err(got, want) / sc if got.shape == want.shape else float('nan'):.3g} relative", **where))
                            break
    return V


def run(scn):
    ck = TreeChecker()
    return base.physics_run(
        scn,
        [ck],
        lambda h, c: depth_of(scn["drive"]["field"]["tree"]) >= 1 and (len(h.stages["S"]) >= 3 or h.outcome.startswith("rejected")),
        lambda h: (scn["meta"].get("depth"), B.tree_time_dependent(scn["drive"]["field"]["tree"])),
        extra=lambda h, c: {"tree_values_checked": ck.checked, "max_tree_err": ck.max_err},
        post=post,
    )


def subtrees(node):
    if "leaf" in node:
        return
    yield node["l"]
    yield node["r"]


def is_vector(node):
    if "leaf" in node:
        return node["leaf"] in ("const_field", "gauge", "wave")
    return is_vector(node["l"]) or is_vector(node["r"])


def shrink(scn):
    tree = scn["drive"]["field"]["tree"]
    # replace the tree by one of its vector-valued subtrees
    for st in subtrees(tree):
        if is_vector(st):
            yield base.with_path(scn, ["drive", "field", "tree"], st)
    # replace one child by a leaf
    if "op" in tree:
        for side in ("l", "r"):
            ch = tree[side]
            if "op" in ch:
                for st in subtrees(ch):
                    if is_vector(st) == is_vector(ch):
                        t2 = copy.deepcopy(tree)
                        t2[side] = st
                        yield base.with_path(scn, ["drive", "field", "tree"], t2)
    for s in base.physics_shrinks(scn):
        if s["drive"]["field"] == scn["drive"]["field"]:
            yield s
