"""C13 - screening returns a self-consistent induced vector potential or fails."""
from ..common import aeq  # noqa: F401
from .. import scen
from ..checkers import C13Screening
from ..common import Violation, substream
from . import base

ID = "C13"
LEVEL = "exploration"
RULE = (
    "Engine-A runs with screening: tolerance 1e-4..1e-2, step size / drag varied, static and time-dependent fields, terminals, "
    "iteration budgets below need (forced non-convergence), plus screening-off runs; every iteration: kernel == direct SI double sum "
    "and reported mismatch == recomputed; 8 % of the runs are bare calls of the accelerated kernel on random currents / areas / point sets of 1..12289 source sites (far beyond the simulated meshes) against the direct double sum; "
    " every accepted step: mismatch < tolerance and stored potential reproduces the sum from the "
    "stored currents; non-convergence raises and records nothing. Non-trivial = at least 2 accepted screening steps or a forced "
    "non-convergence; distinct = scenario digests"
)
LIFECYCLES = {"p_prior": 0.07, "p_metres": 0.08, "p_reoriented": 0.04, "p_used": 0.15, "p_guest": 0.1}  # shared object life cycles (scen.add_lifecycles) with their default rates
BUDGET = {"quick": {"runs": 200, "chunk": 5}, "thorough": {"runs": 30000, "chunk": 10}}
COMPONENTS = {"real": ["numba kernel get_A_induced_numba", "TDGLSolver.get_induced_vector_potential / update iteration loop", "Mesh.get_quantity_on_site"], "stub": ["wall clock"]}


KERNEL_SIZES = (1, 3, 50, 300, 1024, 2049, 4095, 4096, 4097, 5000, 8191, 8193, 9000, 12289)


def gen(seed, idx, tier):
    rk = substream(seed, idx, "c13-bare-kernel")
    if rk.random() < 0.08:
        # "kernel equivalence for arbitrary currents, areas and point sets": the accelerated kernel on its own,
        # on point sets far larger than the meshes of the simulated runs (blocking / chunking strategies that
        # only switch on for large problems), against the direct double sum
        return {"kernel_only": True, "n_sites": rk.choice(KERNEL_SIZES), "n_points": rk.choice([1, 7, 64, 200]), "seed": rk.randrange(10**6), "threads": rk.choice([1, 2, 4]), "clustered": rk.random() < 0.3,
                "options": {}, "device": {}, "drive": {"field": {"kind": "zero"}}, "faults": [], "meta": {}}
    rnd = substream(seed, idx, "c13")
    screening = rnd.random() < 0.85
    scn = scen.gen_physics(
        rnd,
        screening=screening,
        n_terminals=rnd.choice([0, 0, 0, 2]),
        steps=(2, 8),
        dt_choices=[1e-3, 0.01, 0.05],
        field_kinds=("const", "const", "ramp", "zero"),
        eps_kinds=("none", "none", "spatial"),
        refuse=0.1,
        p_currents=0.5,
    )
    if screening and rnd.random() < 0.25:
        scn["options"]["max_iterations_per_step"] = rnd.choice([1, 2, 3, 5, 10, 20])
        scn["meta"]["nonconv"] = True
    elif screening and rnd.random() < 0.3:
        # a cancellation in the middle of the screening iterations of a step: the final frame must
        # hold the last ACCEPTED (self-consistent) state, not a half-iterated one
        scn["options"]["save_every"] = 100
        scn["options"]["pause_on_interrupt"] = False
        scn["faults"] = [f for f in scn.get("faults", []) if f["kind"] == "refuse"] + [
            {"kind": "sigint", "at": {"point": "line", "func": rnd.choice(["get_induced_vector_potential", "get_induced_vector_potential", "solve_for_observables"]), "ordinal": rnd.randint(20, 600), "stage": "S"}}
        ]
        scn["meta"]["cancel_in_screening"] = True
    elif rnd.random() < 0.25 and not scn["options"]["skip_time"]:
        # the run continues from the final state of an earlier screened run (seed solution); the run
        # itself has screening on (frame 0 is the seed's accepted, self-consistent state) or off (the
        # induced potential is identically zero in every frame, whatever the seed carried)
        scn["seed_phase"] = {"steps": rnd.randint(2, 4)}
        if rnd.random() < 0.4:
            scn["options"]["include_screening"] = False
        scn["options"]["save_every"] = rnd.choice([1, 2, 100])
        scn["faults"] = []
        return scn
    return scen.maybe_moved(rnd, scen.maybe_restored(rnd, scen.maybe_solve_twice(rnd, scn)), 0.15)


def self_consistency_ratio(sim, data, tol):
    """|stored potential - (mu_0/4pi) sum K a / r of the stored currents| / max|stored| / tol, or None
    when the potential is at rounding-noise level."""
    import numpy as np

    from .. import refphys as R
    from ..checkers import get_ctx

    c = get_ctx(sim)
    rm = c.rm
    J = np.asarray(data["supercurrent"]) + np.asarray(data["normal_current"])
    direct = R.induced_direct(R.site_average(rm, J), c.scales.screening_prefactor(c.lu) * rm.areas * c.xi**2, rm.sites * c.xi, rm.centers * c.xi)
    A = np.asarray(data["induced_vector_potential"])
    Amax = max(float(np.max(np.linalg.norm(A, axis=1), initial=0.0)), float(np.max(np.linalg.norm(direct, axis=1), initial=0.0)))
    if Amax < 1e-10:
        return None
    return float(np.max(np.linalg.norm(direct - A, axis=1))) / Amax / tol


def post(sim, h):
    import numpy as np
    from ..common import aeq  # noqa: E402

    from .. import recorder

    V = []
    o = sim.scn["options"]
    for st, step, name in sim.alias_violations[:1]:
        if st == "seed":
            V.append(Violation("state-mutated-in-place", f"the run wrote into '{name}' of the Solution it was seeded with: the record of the finished run it continues has been altered", quantity=name, seed=True))
            continue
        V.append(Violation("state-mutated-in-place", f"update {st}{step} modified the array of '{name}' it was handed (the last accepted state held by the runner) in place", quantity=name))
    # every recorded frame holds an accepted state (bitwise the state returned by that many updates)
    for fr in h.frames:
        if not fr["completed"] or fr["stage"] != "S":
            continue
        exp = recorder.state_after(h, fr["step"])
        if exp is None:
            continue
        bad = [n for n in fr["data"] if n in exp and exp[n] is not None and not aeq(np.asarray(fr["data"][n]), np.asarray(exp[n]))]
        if bad:
            V.append(Violation("frame-vs-accepted-state", f"frame of step {fr['step']} differs from the accepted state after {fr['step']} updates in {bad}", step=fr["step"], cancelled=bool(h.fire_info)))
            break
    sp = sim.scn.get("seed_phase")
    if sp is not None and h.frames and h.frames[0]["completed"] and h.frames[0]["step"] == 0:
        fr0 = h.frames[0]["data"]
        if o.get("include_screening"):
            # frame 0 of the continued run is the accepted final step of the (screened) earlier run
            r = self_consistency_ratio(sim, fr0, o.get("screening_tolerance", 1e-3))
            if r is not None and r > 10.0 and not sp.get("seed_momentum_dominated"):
                V.append(Violation("stored-not-self-consistent", f"frame 0 of a run continued from a screened run: stored induced potential differs from the sum over the stored currents by {r:.3g} x tolerance", step=0, momentum_dominated=False, seeded=True))
        else:
            import numpy as np

            A0 = np.asarray(fr0["induced_vector_potential"])
            if np.any(A0 != 0):
                V.append(Violation("induced-nonzero", f"screening disabled, run continued from a screened run: frame 0 stores a non-zero induced vector potential (max {float(np.max(np.abs(A0))):.3g})", step=0, seeded=True))
    if not o.get("include_screening"):
        return V
    budget = o.get("max_iterations_per_step", 1000)
    tol = o.get("screening_tolerance", 1e-3)
    for st in ("T", "S"):
        for u in h.stages[st]:
            if u["out"] is not None and u["n_screen"] > budget + 1:
                V.append(Violation("over-budget", f"step {u['step']} accepted after {u['n_screen']} iterations, budget {budget}", step=u["step"]))
            if u["out"] is None and u["screen_errs"] and len(u["screen_errs"]) >= budget + 1 and u["screen_errs"][-1] >= tol:
                h.probe("screening_nonconvergence")
                if not h.outcome.startswith("raised:RuntimeError"):
                    V.append(Violation("nonconvergence-no-error", f"step {u['step']} did not converge within {budget} iterations but the run ended with {h.outcome}"))
    if h.outcome.startswith("raised:RuntimeError") and "Screening" in h.exc[1]:
        # nothing of the failed step may be recorded
        last = [u for u in h.stages["S"] if u["out"] is None]
        if last:
            for fr in h.frames:
                if fr["stage"] == "S" and fr["step"] > last[-1]["step"]:
                    V.append(Violation("recorded-after-failure", f"a frame (step {fr['step']}) was recorded after screening failed at step {last[-1]['step']}"))
    return V


def run_kernel_only(scn):
    import numba
    import numpy as np
    from tdgl.solver.screening import get_A_induced_numba

    from .. import refphys as R
    from ..common import digest_arrays, digest_obj

    rs = np.random.default_rng(scn["seed"])
    n, m = scn["n_sites"], scn["n_points"]
    sites = rs.uniform(-5, 5, (n, 2))
    if scn.get("clustered"):
        sites[: n // 2] = rs.normal(0.0, 0.05, (n // 2, 2))
    J = rs.normal(0.0, 1.0, (n, 2)) * rs.choice([1.0, 1e-6, 1e3])
    areas = rs.uniform(0.01, 0.2, n)
    pts = rs.uniform(-5, 5, (m, 2)) + 1e-3  # evaluation points are never mesh sites (edge centres)
    out = np.full((m, 2), np.nan)
    old = numba.get_num_threads()
    numba.set_num_threads(min(scn.get("threads", 1), numba.config.NUMBA_NUM_THREADS))
    try:
        get_A_induced_numba(J, areas, sites, pts, out)
    finally:
        numba.set_num_threads(old)
    direct = R.induced_direct(J, areas, sites, pts)
    scale = float(np.max(np.abs(direct), initial=0.0)) + 1e-300
    err = float(np.max(np.abs(out - direct))) / scale if np.all(np.isfinite(out)) else float("inf")
    V = []
    if not err <= 1e-9:  # fastmath re-association over up to 12289 terms of mixed sign
        V.append(Violation("kernel-vs-direct", f"bare kernel call, {n} source sites x {m} points: the kernel differs from the direct double sum by {err:.3g} relative", step=-1, bare=True, large=n > 4096))
    return {
        "digest": digest_obj(scn), "outcome": "kernel-only", "exc": None, "violations": [dict(v) for v in V], "nontrivial": True,
        "sig": ("kernel-only", n, m, scn.get("threads"), bool(scn.get("clustered"))),
        "fingerprint": digest_arrays(np.round(out / scale, 6)),
        "stats": {"steps": 0, "sim_time": 0.0, "probes": {"bare_kernel_call": 1, f"bare_kernel_sites:{n}": 1}, "faults": [], "attempts": 0, "screen_iters": 0, "sites": n, "iters": 0, "accepted": 0},
        "discard": None,
    }


def run(scn):
    if scn.get("kernel_only"):
        return run_kernel_only(scn)
    import copy

    from ..common import Discard
    from ..engine import run_scenario

    sp = scn.get("seed_phase")
    if not sp:
        return _run(scn)
    s0 = copy.deepcopy(scn)
    s0.pop("seed_phase")
    for key in ("solve_twice", "entry", "options_prior_use"):
        s0.pop(key, None)
    s0["faults"] = []
    s0["options"]["include_screening"] = True
    s0["options"].setdefault("screening_tolerance", 1e-3)
    s0["options"]["max_iterations_per_step"] = 1000
    s0["options"]["skip_time"] = 0.0
    s0["options"]["solve_time"] = scn["options"]["dt_init"] * sp["steps"]
    s0["observer"] = {"output": None}
    ck0 = C13Screening()
    sim0, h0 = run_scenario(s0, checkers=[ck0])
    try:
        if h0.outcome != "solution" or h0.solution is None:
            raise Discard(f"seed run did not complete: {h0.outcome}")
        S0 = [u for u in h0.stages["S"] if u["out"] is not None]
        # the known momentum-exit finding of the seed's own last step is not charged to the continued run
        last_step = S0[-1]["step"] if S0 else None
        scn["seed_phase"]["seed_momentum_dominated"] = any(v["rule"] == "stored-not-self-consistent" and v["where"].get("step") == last_step for v in sim0.violations)
        return _run(scn, seed_solution=h0.solution, mesh_from=None)
    finally:
        sim0.cleanup()


def _run(scn, **kw):
    ck = C13Screening()
    return base.physics_run(
        scn,
        [ck],
        lambda h, c: ck.accepted_steps >= 2 or h.probes.get("screening_nonconvergence", 0) > 0,
        lambda h: (scn["options"].get("screening_tolerance"), scn["meta"].get("nonconv", False), scn["meta"].get("cancel_in_screening", False), ck.accepted_steps >= 5),
        extra=lambda h, c: {"iters": ck.iters, "accepted": ck.accepted_steps, "max_kernel_err": ck.max_kernel_err, "max_final_ratio": ck.max_final_err_ratio},
        post=post,
        **kw,
    )


def shrink(scn):
    if scn.get("kernel_only"):
        for n in KERNEL_SIZES:
            if n < scn["n_sites"]:
                yield dict(scn, n_sites=n)
        if scn["n_points"] > 1:
            yield dict(scn, n_points=1)
        if scn.get("threads", 1) != 1:
            yield dict(scn, threads=1)
        return
    import copy

    for s in base.physics_shrinks(scn):
        if not s["options"].get("include_screening") and scn["options"].get("include_screening"):
            continue
        yield s


def evidence_extra(results):
    scr = [r for r in results if r["stats"].get("iters", 0) > 0]
    conv5 = sum(1 for r in scr if r["stats"].get("accepted", 0) >= 5)
    return {"screening_runs": len(scr), "screening_runs_with_5_accepted_steps": conv5, "screening_iterations_checked": sum(r["stats"].get("iters", 0) for r in results), "coverage_gap": bool(scr) and conv5 * 3 < len(scr)}
