"""C09 - simulations are deterministic and reproducible bit for bit.

The schedule dimension is the execution environment: the same scenario is executed in
several FRESH interpreters that differ in PYTHONHASHSEED, numba thread count 1..16,
parallel chunk size, CPU affinity, cwd/output location, wall-clock script, validator RNG
seed and unrelated work done in the process before the run."""
import copy
import json
import os
import subprocess
import sys

from .. import scen
from ..common import Discard, HarnessError, Violation, digest_obj, substream

ID = "C09"
LEVEL = "exploration"
NONREPRODUCIBLE_IS_VIOLATION = True
RULE = (
    "groups = one scenario (screening on in ~70% so the parallel kernel runs, adaptive, time-dependent drives, callable currents so "
    "the random validator runs) x 1 reference + 3..5 variant executions, each in a fresh interpreter: PYTHONHASHSEED, threads 1..16, "
    "chunk size, affinity mask, cwd/output location (absolute, relative, none), wall clock script, validator RNG seed, pre-work in the "
    "process (about 20% of the groups); the other groups run their members inside one worker process (threads, chunk size, clock, RNG "
    "seed, output location, earlier work vary) so the parallel kernel is sampled far more often; in about 30% of the members another simulation on the same Device object (same drive objects, another field, other terminal handling, screening toggled) is scheduled at a seam of the run - between two steps, inside a step before the psi update / a screening iteration / an operator refresh, around a frame write; non-trivial = at least 3 updates in every member and all members ran; distinct = distinct group digests"
)
LIFECYCLES = {}  # shared object life cycles (scen.add_lifecycles) with their default rates
BUDGET = {"quick": {"runs": 120, "chunk": 2, "selftest": 2, "max_wall": 800}, "thorough": {"runs": 2500, "chunk": 4, "selftest": 2}}
COMPONENTS = {"real": ["meshing (Triangle)", "TDGLSolver incl. numba parallel screening kernel", "validator RNG path", "Runner/DataHandler/Solution", "fresh CPython interpreters"], "stub": ["wall clock (scripted, differs per member)", "validator RNG seed (differs per member)"]}
ASSUMPTIONS = ["Interleaving with another simulation in the same process is decided by the simulator at the seams of the run (between steps, before a psi update / screening iteration / operator refresh, around a frame write): the other simulation runs to completion there, which is what a second caller thread yields at the granularity of those seams.", "The interleaving of threads inside a numba/OpenMP kernel is sampled (thread count, chunk size, affinity incl. 16 threads on 1 core), not controlled."]
VERIF = os.path.dirname(os.path.dirname(os.path.dirname(os.path.abspath(__file__))))


def gen(seed, idx, tier):
    rnd = substream(seed, idx, "c09")
    screening = rnd.random() < 0.7
    large = rnd.random() < 0.12
    if large:
        # a mesh of 500+ sites with screening: blocking / reduction strategies of the parallel
        # kernel that only switch on for large problems
        scn = scen.gen_physics(rnd, screening=True, steps=(2, 3), dt_choices=[0.01], n_terminals=0, n_probes=0, n_holes=rnd.choice([0, 1]), field_kinds=("const",), eps_kinds=("none",), size="large", adaptive=False, therm=False)
        scn["options"]["screening_tolerance"] = 1e-2
        scn["options"]["max_iterations_per_step"] = 200
        lay = scn["device"]["layer"]
        lay["lam"] = scen.r3(lay["xi"] * 8)  # weak screening: the Polyak iteration converges in a few iterations
        lay["d"] = scen.r3(lay["xi"] * 0.1)
        lay["gamma"] = 1.0
        f = scn["drive"]["field"]
        f["B"] = scen.r3(f["B"] * 0.3)
        screening = True
    else:
        scn = scen.gen_physics(
            rnd,
            screening=screening,
            steps=(3, 12),
            dt_choices=[1e-3, 0.01, 0.05],
            n_terminals=rnd.choice([0, 2, 3, 4, 4]),
            field_kinds=("const", "ramp", "pw", "sin", "wave"),
            size=rnd.choice(["small", "medium"]),
        )
    scn["max_screen_iters"] = 1500  # bounded: 16 threads pinned to one core are slow
    cur = scn["drive"]["currents"]
    if cur is not None and cur["kind"] == "const" and rnd.random() < 0.6:
        cur["kind"] = "const_callable"  # the random validator runs
    variants = []
    for j in range(rnd.randint(4, 6)):
        v = {
            "hashseed": str(rnd.randrange(1, 2**31)),
            "threads": rnd.choice([1, 2, 3, 4, 7, 8, 16]),
            "chunk": rnd.choice([0, 0, 1, 3, 16]),
            "affinity": rnd.choice([None, None, [0], [1, 2], list(range(8))]),
            "output": rnd.choice([None, {"path": "out.h5", "absolute": True}, {"path": "rel/o.h5", "absolute": False}]),
            "cwd": rnd.choice(["work", "other/place", "w2"]),
            "clock": {"start": 1.6e9 + rnd.randrange(10**8), "steps": [rnd.choice([0.001, 2.5, -30.0, 86400.0]) for _ in range(4)]},
            "rng_seed": rnd.randrange(10**6),
            "prework": rnd.choice([None, "other-sim", "global-rng", "env-lock"]),
            "pre_idx": rnd.randrange(50),
        }
        variants.append(v)
    variants[0].update(threads=1, chunk=0, affinity=None, prework=None)
    # what happened to the Device object earlier is not an input of the simulation either: some members
    # run on a device that was already simulated on (before it was moved, if the scenario moves it)
    fu_ = scn["options"].get("field_units", "mT")
    for v in variants[1:]:
        if rnd.random() < 0.3:
            v["device_used_before"] = {"steps": rnd.choice([2, 3]), "B": scen.r3(0.2 * scen.FIELD_FACTOR[fu_]), "terminal_psi": rnd.choice(["zero", "none"])}
    if not large and rnd.random() < 0.3:
        scn["device_moved"] = {"dx": rnd.choice([0.0, 0.7, -1.3, 2.5]), "dy": rnd.choice([0.4, -0.9, 1.7])}
        scn["device_moved"]["dz"] = {2.5: 0.5, -1.3: -0.25}.get(scn["device_moved"]["dx"], 0.0)
    if screening:
        variants[1]["threads"] = 16
        variants[2]["threads"] = 16
        variants[2]["affinity"] = [0]
    mode = "fresh" if rnd.random() < 0.2 else "inproc"
    if large:
        mode = "inproc"
        variants = variants[:3]
    reuse = False
    if mode == "inproc" and not large and rnd.random() < 0.2 and not scn["options"]["skip_time"]:
        # the same seed Solution OBJECT handed to every member: a run must not modify its inputs
        reuse = True
        if scn["drive"]["field"]["kind"] in ("ramp", "pw", "sin", "wave"):
            scn["drive"]["field"] = {"kind": "const", "B": scn["drive"]["field"]["B"]}
        cur2 = scn["drive"]["currents"]
        if cur2 is not None and cur2["kind"] in ("pw", "ramp"):
            scn["drive"]["currents"] = {"kind": "const", "I": cur2["values"][0] if cur2["kind"] == "pw" else cur2["I0"]}
        if (scn["drive"].get("epsilon") or {}).get("kind") == "timedep":
            scn["drive"]["epsilon"] = None
        variants = variants[:3]
    if mode == "inproc":
        # 16 workers share 16 cores: keep the in-process members to a few threads each
        for v in variants:
            v["threads"] = min(v["threads"], rnd.choice([2, 3, 4]))
            v["affinity"] = None
    # schedule decisions: in some members another simulation runs on the same Device object at a seam of the
    # run (between steps, inside a step, around a frame write); drawn from a stream of their own
    import random as _random

    g = _random.Random(rnd.getrandbits(64))
    for v in variants[1:]:
        v["guests"] = scen.gen_guests(g, scn) if (g.random() < 0.3 and not reuse) else []
    variants[0]["guests"] = []
    return {"mode": mode, "reuse_seed": reuse, "base": scn, "variants": variants, "options": scn["options"], "device": scn["device"], "drive": scn["drive"], "faults": []}


def execute(scn, var, timeout=600):
    env = dict(os.environ)
    env["PYTHONHASHSEED"] = var["hashseed"]
    env["PYTHONPATH"] = os.environ.get("TDGLSIM_REPO", "/repo") + ":" + VERIF
    env["NUMBA_NUM_THREADS"] = "16"
    env["OPENBLAS_NUM_THREADS"] = "1"
    env["OMP_WAIT_POLICY"] = "PASSIVE"  # oversubscribed OpenMP threads must not spin
    env.pop("HDF5_USE_FILE_LOCKING", None)
    p = subprocess.run([sys.executable, os.path.join(VERIF, "sim", "c09_exec.py")], input=json.dumps({"scenario": scn, "variant": var}), env=env, capture_output=True, text=True, timeout=timeout)
    lines = [l for l in p.stdout.splitlines() if l.startswith("C09PARTS ")]
    if p.returncode != 0 or not lines:
        if "Discard" in p.stderr or "singular" in p.stderr:
            raise Discard("member discarded: " + p.stderr.strip().splitlines()[-1][:80])
        raise HarnessError(f"C09 member failed (exit {p.returncode}): {p.stderr[-1500:]}")
    return json.loads(lines[-1][len("C09PARTS "):])


def execute_inproc(scn, var, seed_solution=None):
    """Same scenario in THIS worker process under another thread count / chunk size / clock /
    RNG seed / output location / amount of earlier work: cheap, so the parallel kernel is
    sampled far more often than fresh interpreters allow."""
    import numba

    from ..common import digest_arrays
    from ..engine import run_scenario

    s = copy.deepcopy(scn)
    s["env"] = {"threads": var.get("threads", 1), "clock": var.get("clock"), "rng_seed": var.get("rng_seed", 1), "cwd": var.get("cwd", "work"), "device_used_before": var.get("device_used_before")}
    s["observer"] = {"output": var.get("output")}
    s["guests"] = copy.deepcopy(var.get("guests", []))
    old_chunk = numba.get_parallel_chunksize()
    if var.get("chunk"):
        numba.set_parallel_chunksize(var["chunk"])
    try:
        sim, h = run_scenario(s, seed_solution=seed_solution)
    finally:
        numba.set_parallel_chunksize(old_chunk)
    try:
        ups = [(st, u["step"], repr(u["dt"]), digest_arrays(*[u["out"][k] for k in sorted(u["out"])]), u["n_screen"]) for st in ("T", "S") for u in h.stages[st] if u["out"] is not None]
        frs = [(fr["number"], fr["step"], repr(fr["time"]), digest_arrays(*[fr["data"][k] for k in sorted(fr["data"])]), None if fr["running"] is None else digest_arrays(*[fr["running"][k] for k in sorted(fr["running"])])) for fr in h.frames]
        m = h.device.mesh
        return {
            "mesh": digest_arrays(m.sites, m.elements, m.areas, m.edge_mesh.edges, m.edge_mesh.dual_edge_lengths),
            "updates": digest_obj(ups),
            "frames": digest_obj(frs),
            "fixed": None if h.fixed is None else digest_arrays(*[h.fixed[k] for k in sorted(h.fixed)]),
            "outcome": h.outcome if not h.outcome.startswith("raised") else h.outcome + ":" + h.exc[1][:60],
            "n_updates": len(ups),
            "guests_fired": len(h.guests_fired),
            "threading_layer": None,
        }
    finally:
        sim.cleanup()


def run(scn):
    from concurrent.futures import ThreadPoolExecutor

    base_scn = scn["base"]
    if scn.get("mode") == "inproc" and scn.get("reuse_seed"):
        from ..engine import run_scenario

        s0 = copy.deepcopy(base_scn)
        s0["observer"] = {"output": {"path": "seed.h5", "absolute": True}}
        sim0, h0 = run_scenario(s0)
        try:
            if h0.outcome != "solution":
                raise Discard(f"seed run did not complete: {h0.outcome}")
            parts = [execute_inproc(base_scn, v, seed_solution=h0.solution) for v in scn["variants"]]
        finally:
            sim0.cleanup()
    elif scn.get("mode") == "inproc":
        parts = [execute_inproc(base_scn, v) for v in scn["variants"]]
    else:
        with ThreadPoolExecutor(max_workers=len(scn["variants"])) as tp:
            parts = list(tp.map(lambda v: execute(base_scn, v), scn["variants"]))
    ref = parts[0]
    V = []
    for j, p in enumerate(parts[1:], 1):
        diff = [k for k in ("mesh", "outcome", "fixed", "updates", "frames", "solution") if p.get(k) != ref.get(k)]
        both_file = "file" in p and "file" in ref
        if not diff and both_file and p["file"] != ref["file"]:
            a, b = ref["file_items"], p["file_items"]
            diff = ["file:" + k for k in sorted(set(a) | set(b)) if a.get(k) != b.get(k)][:6]
        if diff:
            va, vb = scn["variants"][0], scn["variants"][j]
            V.append(
                Violation(
                    "not-reproducible",
                    f"execution {j} differs from the reference execution in {diff}; environment difference: "
                    + ", ".join(f"{k}: {va[k]} -> {vb[k]}" for k in ("hashseed", "threads", "chunk", "affinity", "output", "cwd", "prework", "rng_seed", "guests") if va.get(k) != vb.get(k)),
                    parts=diff,
                    screening=bool(base_scn["options"]["include_screening"]),
                )
            )
            break
    files = [p for p in parts if "file" in p]
    if len({p["file"] for p in files}) > 1 and not V:
        a, b = files[0]["file_items"], [p for p in files if p["file"] != files[0]["file"]][0]["file_items"]
        names = [k for k in sorted(set(a) | set(b)) if a.get(k) != b.get(k)][:6]
        V.append(Violation("not-reproducible", f"output files of two executions differ in {names} (datasets/attributes other than time stamps)", parts=["file"], screening=bool(base_scn["options"]["include_screening"])))
    for p in parts:
        p.pop("file_items", None)
    nup = min(p["n_updates"] for p in parts)
    return {
        "digest": digest_obj(scn),
        "outcome": ref["outcome"].split(":")[0] if ref["outcome"].startswith("raised") else ref["outcome"],
        "exc": None,
        "violations": [dict(v) for v in V],
        "nontrivial": nup >= 3,
        "sig": (scn.get("mode"), bool(scn.get("reuse_seed")), ref["outcome"].split(":")[0], bool(base_scn["options"]["include_screening"]), bool(base_scn["options"]["adaptive"]), base_scn["drive"]["field"]["kind"], (base_scn["drive"]["currents"] or {}).get("kind"), tuple(sorted({v["threads"] for v in scn["variants"]})), ref.get("threading_layer")),
        "fingerprint": digest_obj([{k: v for k, v in p.items()} for p in parts]),
        "stats": {"steps": sum(p["n_updates"] for p in parts), "sim_time": 0.0, "probes": {("fresh_processes" if scn.get("mode") != "inproc" else "inproc_executions"): len(parts), "threads:" + "/".join(str(v["threads"]) for v in scn["variants"]): 1}, "faults": ["guest-simulation"] * sum(p.get("guests_fired", 0) for p in parts), "attempts": 0, "screen_iters": 0, "sites": 0, "members": len(parts) if scn.get("mode") != "inproc" else 0, "inproc_members": len(parts) if scn.get("mode") == "inproc" else 0},
        "discard": None,
    }


def shrink(scn):
    vs = scn["variants"]
    if len(vs) > 2:
        for i in range(1, len(vs)):
            yield dict(scn, variants=[vs[0], vs[i]])
    if len(vs) == 2:
        for key in ("threads", "chunk", "affinity", "output", "cwd", "prework", "rng_seed", "clock", "guests"):
            if vs[1].get(key) != vs[0].get(key):
                v1 = dict(vs[1])
                v1[key] = copy.deepcopy(vs[0][key])
                yield dict(scn, variants=[vs[0], v1])
    from . import base

    for b in base.physics_shrinks(scn["base"]):
        yield dict(scn, base=b, options=b["options"], device=b["device"], drive=b["drive"])


def evidence_extra(results):
    return {"fresh_interpreters_started": sum(r["stats"].get("members", 0) for r in results), "in_process_executions": sum(r["stats"].get("inproc_members", 0) for r in results)}
