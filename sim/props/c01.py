"""C01 - charge is conserved in every cell at every recorded step."""
from .. import scen
from ..checkers import C01Conservation
from ..common import Violation, substream
from . import base

ID = "C01"
LEVEL = "exploration"
RULE = (
    "Engine-A runs over devices (0/1/2 holes, 2..4 terminals), balanced constant / piecewise / ramped terminal currents "
    "(integer, dyadic, non-representable decimal amplitudes), fields zero/static/time-dependent, screening, adaptivity, "
    "thermalisation, unit systems, injected refusals, stops inside a step (cancel / resume), solver solved twice, device read back from a file; non-trivial = at least 3 updates checked with a non-zero terminal current "
    "or a time-dependent field; distinct = distinct scenario digests"
)
LIFECYCLES = {"p_prior": 0.07, "p_metres": 0.08, "p_reoriented": 0.04, "p_guest": 0.1}  # shared object life cycles (scen.add_lifecycles) with their default rates
BUDGET = {"quick": {"runs": 700, "chunk": 10}, "thorough": {"runs": 120000, "chunk": 20}}
COMPONENTS = {"real": ["Device/mesh", "TDGLSolver (update, Poisson solve, boundary conditions, validator)", "MeshOperators", "Runner", "DataHandler"], "stub": ["wall clock", "validator RNG (seeded)", "monitor subprocess"]}


def gen(seed, idx, tier):
    rnd = substream(seed, idx, "c01")
    scn = scen.gen_physics(
        rnd,
        n_terminals=rnd.choice([2, 2, 3, 3, 4]),
        p_currents=0.95,
        refuse=0.3,
        steps=(3, 25),
        eps_kinds=("none", "none", "none", "const", "spatial"),
        p_remesh=0.12,
    )
    if rnd.random() < 0.2:
        # a stop in the middle of a step: the frames recorded afterwards (the final frame of a
        # cancelled run, the next regular frame of a resumed one) are frames like any other
        pause = rnd.random() < 0.4
        scn["options"]["pause_on_interrupt"] = pause
        scn["options"]["save_every"] = rnd.choice([1, 2, 3, 5, 100])
        scn["observer"] = {"output": None, "answers": ["y", "y"] if pause else []}
        scn["faults"] = [f for f in scn.get("faults", []) if f["kind"] == "refuse"] + [
            {"kind": "sigint", "at": {"point": "line", "func": rnd.choice(["update", "update", "adaptive_euler_step", "solve_for_observables"]), "ordinal": rnd.randint(10, 500), "stage": "S"}}
        ]
        scn["meta"]["cancel_in_step"] = True
        return scn
    return scen.maybe_moved(rnd, scen.maybe_restored(rnd, scen.maybe_solve_twice(rnd, scn)), 0.08)


def check_frames(sim, h):
    """Again on every recorded frame (what the writer was handed): the frame of step s > 0 holds
    the currents of update s-1, whose boundary condition was I(t_{s-1}); frame 0 of an unseeded
    run is the user-visible initial condition (zero currents) and is excluded."""
    import numpy as np

    from .. import build as B
    from ..checkers import get_ctx

    V = []
    S = h.stages["S"]
    if not h.frames or h.device is None:
        return V
    c = get_ctx(sim)
    rm = c.rm
    for fr in h.frames:
        s = fr["step"]
        if not fr["completed"] or fr["stage"] != "S" or s == 0:
            continue
        # the update that produced the state labelled s (labels, not positions: a resumed run skips
        # the interrupted step)
        done = [u for u in S if u["step"] == s - 1 and u["out"] is not None]
        if not done:
            continue
        t_step = done[-1]["time"]
        J = np.asarray(fr["data"]["supercurrent"]) + np.asarray(fr["data"]["normal_current"])
        flow = rm.net_outflow(J)
        I = B.current_at(sim.scn["drive"].get("currents"), t_step)
        expected = np.zeros(rm.n)
        for name, t in c.shares.items():
            tot = c.J_scale * I.get(name, 0.0) / c.xi
            if t["length"] > 0:
                for site, share in t["share"].items():
                    expected[site] += tot * share / t["length"]
        jmax = max(float(np.max(np.abs(fr["data"]["supercurrent"]), initial=0.0)), float(np.max(np.abs(fr["data"]["normal_current"]), initial=0.0)))
        scale = 1.0 + jmax * float(rm.s_len.max())
        resid = np.abs(flow - expected)
        if np.any(resid > 1e-9 * scale):
            i = int(np.argmax(resid))
            V.append(Violation("frame-continuity", f"recorded frame of step {s}: net outflow of cell {i} is {flow[i]:.6g}, injected share {expected[i]:.6g}", step=s, n_terminals=len(c.shares)))
            break
    return V


def post(sim, h):
    if not h.outcome.startswith("rejected"):
        return check_frames(sim, h)
    if h.outcome.startswith("rejected") and h.exc[0] == "ValueError" and "sum of all terminal currents" in h.exc[1]:
        cur = sim.scn["drive"]["currents"]
        return [
            Violation(
                "balanced-rejected",
                f"balanced terminal currents rejected: {h.exc[1][:90]} (spec {cur})",
                n_terminals=len(sim.scn["device"]["terminals"]),
                kind=cur["kind"],
            )
        ]
    return []


def run(scn):
    ck = C01Conservation()

    def nontrivial(h, cks):
        cur = scn["drive"].get("currents")
        return ck.checked >= 3 and (cur is not None or scn["drive"]["field"]["kind"] not in ("zero", "const", "const_param", "plain"))

    return base.physics_run(scn, [ck], nontrivial, None, extra=lambda h, c: {"max_resid": ck.max_resid, "checked": ck.checked}, post=post)


def shrink(scn):
    yield from base.physics_shrinks(scn)
