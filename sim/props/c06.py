"""C06 - the order parameter is pinned on current terminals and nowhere else."""
from .. import scen
from ..checkers import C02Update, C06Pinning
from ..common import substream
from . import base

ID = "C06"
LEVEL = "exploration"
RULE = (
    "Engine-A runs on devices with 2..4 terminals, terminal_psi in {0, None, real/complex 0<|v|<=1}, refresh-heavy drives "
    "(time-dependent fields, screening), injected refusals, thermalisation, continuation from the run's own file with the options read back; after every update psi on terminal sites == terminal "
    "value; before every psi attempt the identity rows of the Laplacian == terminal site set (empty when unset) and the update "
    "identity holds on all rows; non-trivial = at least 3 updates on a device with terminals; distinct = scenario digests"
)
LIFECYCLES = {"p_prior": 0.07, "p_reoriented": 0.04, "p_guest": 0.15}  # shared object life cycles (scen.add_lifecycles) with their default rates
BUDGET = {"quick": {"runs": 500, "chunk": 10}, "thorough": {"runs": 80000, "chunk": 20}}
COMPONENTS = {"real": ["MeshOperators (build + in-place refresh)", "TDGLSolver.update", "Device.terminal_info"], "stub": ["wall clock", "validator RNG (seeded)"]}


def gen(seed, idx, tier):
    rnd = substream(seed, idx, "c06")
    tp = rnd.choice([0.0, 0.0, None, None, 1.0, 0.5, {"re": 0.3, "im": 0.4}, {"re": 0.0, "im": -0.8}])
    scn = scen.gen_physics(
        rnd,
        n_terminals=rnd.choice([2, 2, 3, 4]),
        terminal_psi=tp,
        refuse=0.25,
        steps=(3, 25),
        field_kinds=("zero", "const", "ramp", "pw", "sin", "sin", "wave"),
        screening=rnd.random() < 0.12,
        p_remesh=0.25,
        p_overlap=0.3,
    )
    if scn["options"].get("skip_time", 0.0) == 0.0 and rnd.random() < 0.2:
        # life cycle: the run is continued from its own file - the Solution read back supplies both
        # the seed state and the options object, exactly as the file recorded them
        scn["reload_phase"] = {"steps": rnd.randint(2, 6)}
    if scn["device"]["terminals"] and not scn.get("reload_phase") and not scn["options"].get("skip_time") and rnd.random() < 0.12:
        # the run continues from the in-memory Solution of an earlier run that treated the terminals
        # differently; afterwards the earlier run's record must still show ITS terminal value
        tp_ = scn["options"].get("terminal_psi", 0.0)
        scn["seed_phase"] = {"terminal_psi": rnd.choice([x for x in (None, 0.0, 0.5, 1.0) if x != tp_]), "steps": rnd.randint(2, 4)}
        scn["faults"] = []
        return scn
    if rnd.random() < 0.15 and not scn.get("reload_phase"):
        scen.in_metres(scn)  # which sites belong to a terminal must not depend on the size of the numbers
    return scen.maybe_restored(rnd, scen.maybe_sibling(rnd, scen.maybe_solve_twice(rnd, scn)))


def run(scn):
    import copy

    from ..common import Discard
    from ..engine import run_scenario

    if scn.get("seed_phase"):
        import numpy as np

        from ..common import Violation, aeq

        sp = scn["seed_phase"]
        s0 = copy.deepcopy(scn)
        for key in ("seed_phase", "solve_twice", "sibling", "entry", "options_prior_use", "device_used_before"):
            s0.pop(key, None)
        s0["faults"] = []
        s0["options"]["terminal_psi"] = sp["terminal_psi"]
        s0["options"]["skip_time"] = 0.0
        s0["options"]["solve_time"] = scn["options"]["dt_init"] * sp["steps"]
        s0["observer"] = {"output": None}
        sim0, h0 = run_scenario(s0)
        try:
            if h0.outcome != "solution" or h0.solution is None:
                raise Discard(f"first run did not complete: {h0.outcome}")
            seed = h0.solution
            term = sorted({int(i) for ti in h0.device.terminal_info() for i in ti.site_indices})
            before = np.array(seed.tdgl_data.psi, copy=True)

            def post_seed(sim, h):
                after = np.asarray(seed.tdgl_data.psi)
                if not aeq(after[term], before[term]):
                    i = term[int(np.argmax(np.abs(after[term] - before[term])))]
                    return [Violation("terminal-value-record", f"after its Solution seeded another run, the finished run (terminal_psi={sp['terminal_psi']!r}) reports psi = {complex(after[i]):.6g} on terminal site {i} where it had recorded {complex(before[i]):.6g}", seeded=True)]
                return []

            s1 = copy.deepcopy(scn)
            s1.pop("device_history", None)
            return _run(s1, seed_solution=seed, mesh_from=h0.device.mesh, post=post_seed)
        finally:
            sim0.cleanup()
    if not scn.get("reload_phase"):
        return _run(scn)
    import tdgl

    s0 = copy.deepcopy(scn)
    rp = s0.pop("reload_phase")
    s0["faults"] = []
    s0["options"]["solve_time"] = min(s0["options"]["solve_time"], s0["options"]["dt_init"] * rp["steps"])
    s0["observer"] = {"output": {"path": "first.h5", "absolute": True}}
    sim0, h0 = run_scenario(s0)
    try:
        if h0.outcome != "solution" or h0.solution is None or not getattr(h0.solution, "path", None):
            raise Discard(f"first run did not complete: {h0.outcome}")
        loaded = tdgl.Solution.from_hdf5(h0.solution.path)
        mesh = h0.device.mesh
        s1 = copy.deepcopy(scn)
        s1.pop("device_history", None)
        return _run(s1, seed_solution=loaded, options_as_is=loaded.options, mesh_from=mesh)
    finally:
        sim0.cleanup()


def _run(scn, **kw):
    ck = C06Pinning()
    ck2 = C02Update()  # free evolution of unpinned rows: the update identity on the rows actually handed over
    tp = scn["options"].get("terminal_psi", 0.0)
    return base.physics_run(
        scn,
        [ck, ck2],
        lambda h, c: len(h.stages["S"]) >= 3,
        lambda h: (("none" if tp is None else ("zero" if tp == 0 else "nonzero")),),
        extra=lambda h, c: {"max_drift": ck.max_drift, "attempts_checked": ck.checked, "reloaded": bool(kw)},
        **kw,
    )


def shrink(scn):
    yield from base.physics_shrinks(scn)
