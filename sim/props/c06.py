"""C06 - the order parameter is pinned on current terminals and nowhere else."""
from .. import scen
from ..checkers import C02Update, C06Pinning
from ..common import substream
from . import base

ID = "C06"
LEVEL = "exploration"
RULE = (
    "Engine-A runs on devices with 2..4 terminals, terminal_psi in {0, None, real/complex 0<|v|<=1}, refresh-heavy drives "
    "(time-dependent fields, screening), injected refusals, thermalisation; after every update psi on terminal sites == terminal "
    "value; before every psi attempt the identity rows of the Laplacian == terminal site set (empty when unset) and the update "
    "identity holds on all rows; non-trivial = at least 3 updates on a device with terminals; distinct = scenario digests"
)
BUDGET = {"quick": {"runs": 500, "chunk": 10}, "thorough": {"runs": 80000, "chunk": 20}}
COMPONENTS = {"real": ["MeshOperators (build + in-place refresh)", "TDGLSolver.update", "Device.terminal_info"], "stub": ["wall clock", "validator RNG (seeded)"]}


def gen(seed, idx, tier):
    rnd = substream(seed, idx, "c06")
    tp = rnd.choice([0.0, 0.0, None, None, 1.0, 0.5, {"re": 0.3, "im": 0.4}, {"re": 0.0, "im": -0.8}])
    scn = scen.gen_physics(
        rnd,
        n_terminals=rnd.choice([2, 2, 3, 4]),
        terminal_psi=tp,
        refuse=0.25,
        steps=(3, 25),
        field_kinds=("zero", "const", "ramp", "pw", "sin", "sin"),
        screening=rnd.random() < 0.12,
        p_remesh=0.25,
        p_overlap=0.3,
    )
    return scn


def run(scn):
    ck = C06Pinning()
    ck2 = C02Update()  # free evolution of unpinned rows: the update identity on the rows actually handed over
    tp = scn["options"].get("terminal_psi", 0.0)
    return base.physics_run(
        scn,
        [ck, ck2],
        lambda h, c: len(h.stages["S"]) >= 3,
        lambda h: (("none" if tp is None else ("zero" if tp == 0 else "nonzero")),),
        extra=lambda h, c: {"max_drift": ck.max_drift, "attempts_checked": ck.checked},
    )


def shrink(scn):
    yield from base.physics_shrinks(scn)
