"""Seeded scenario generation (swarm style). Everything is a pure function of the
``random.Random`` passed in; scenarios are plain JSON-serialisable dicts."""
import math

UNIT_LEN = ("um", "nm", "mm")
UNIT_FIELD = ("mT", "uT", "T")
UNIT_CUR = ("uA", "nA", "mA")
LEN_FACTOR = {"um": 1.0, "nm": 1e3, "mm": 1e-3}  # value of 1 um in the unit
FIELD_FACTOR = {"mT": 1.0, "uT": 1e3, "T": 1e-3}  # value of 1 mT in the unit
CUR_FACTOR = {"uA": 1.0, "nA": 1e3, "mA": 1e-3}  # value of 1 uA in the unit

SIDES = ("left", "right", "top", "bottom")
TERMINAL_NAMES = ("source", "drain", "t3", "t4")


def r3(x):
    """Round to keep scenarios readable; values stay exactly representable in JSON."""
    return float(f"{x:.6g}")


def gen_layer(rnd, length_units="um", gamma=None, screening=False):
    xi_um = rnd.choice([0.1, 0.25, 0.5, 1.0])
    lam_um = xi_um * rnd.choice([1.0, 2.0, 4.0, 8.0])
    d_um = rnd.choice([0.01, 0.05, 0.1])
    if screening:
        # strong screening (small Lambda) makes the Polyak iteration fragile; keep kappa_eff moderate
        lam_um = xi_um * rnd.choice([4.0, 8.0])
    f = LEN_FACTOR[length_units]
    if gamma is None:
        gamma = rnd.choice([0.0, 0.1, 1.0, 10.0])
    return {
        "xi": r3(xi_um * f),
        "lam": r3(lam_um * f),
        "d": r3(d_um * f),
        "u": rnd.choice([5.79, 1.0, 0.5, 10.0]),
        "gamma": gamma,
        "z0": 0.0,
    }


def gen_film(rnd, size="small"):
    kind = rnd.choice(["box", "box", "box", "ellipse"])
    if size == "tiny":
        w, h = rnd.choice([3.0, 4.0]), rnd.choice([2.0, 3.0])
        npts = rnd.choice([10, 12, 14])
    elif size == "small":
        w, h = rnd.choice([4.0, 5.0, 6.0, 8.0]), rnd.choice([3.0, 4.0, 5.0])
        npts = rnd.choice([16, 20, 24, 28, 36])
    else:
        w, h = rnd.choice([6.0, 8.0, 10.0]), rnd.choice([4.0, 6.0])
        npts = rnd.choice([36, 48, 60])
    # perfectly regular meshes make SuperLU hit an exact zero pivot of the (singular)
    # Neumann Laplacian about one time in five; a little irregularity avoids most discards
    w = r3(w + rnd.uniform(0.01, 0.3))
    h = r3(h + rnd.uniform(0.01, 0.3))
    if kind == "box":
        return {"kind": "box", "w": w, "h": h, "npts": npts}
    return {"kind": "ellipse", "a": w / 2, "b": h / 2, "npts": npts}


def film_half_extent(film):
    if film["kind"] == "box":
        return film["w"] / 2, film["h"] / 2
    return film["a"], film["b"]


def gen_holes(rnd, film, n=None):
    hw, hh = film_half_extent(film)
    if n is None:
        n = rnd.choice([0, 0, 1, 1, 2])
    holes = []
    if n == 0:
        return holes
    r = min(hw, hh) * rnd.choice([0.15, 0.2, 0.25])
    if n == 1:
        centers = [(r3(rnd.uniform(-0.2, 0.2) * hw), r3(rnd.uniform(-0.2, 0.2) * hh))]
    else:
        r = min(hw / 2, hh) * 0.2
        centers = [(r3(-0.45 * hw), r3(rnd.uniform(-0.1, 0.1) * hh)), (r3(0.45 * hw), r3(rnd.uniform(-0.1, 0.1) * hh))]
    for i, c in enumerate(centers):
        if rnd.random() < 0.7:
            holes.append({"kind": "ellipse", "a": r3(r), "b": r3(r * rnd.choice([1.0, 0.7])), "npts": rnd.choice([6, 8, 10]), "c": list(c), "name": f"hole{i}"})
        else:
            holes.append({"kind": "box", "w": r3(1.6 * r), "h": r3(1.2 * r), "npts": 8, "c": list(c), "name": f"hole{i}"})
    return holes


def gen_terminals(rnd, film, n):
    """n terminals on distinct sides, spans jittered so that no boundary point sits on a
    terminal polygon's outline."""
    if n == 0:
        return []
    if film["kind"] == "ellipse":
        sides = ["left", "right"] + (["top", "bottom"] if n > 2 else [])
    else:
        sides = list(SIDES)
        if n == 2 and rnd.random() < 0.7:
            sides = ["left", "right"]
        else:
            rnd.shuffle(sides)
    out = []
    for i in range(n):
        lo = rnd.choice([0.0, 0.1, 0.2]) + rnd.uniform(0.011, 0.019)
        hi = rnd.choice([1.0, 0.9, 0.8]) - rnd.uniform(0.011, 0.019)
        if film["kind"] == "ellipse":
            lo, hi = 0.25 + rnd.uniform(0.011, 0.019), 0.75 - rnd.uniform(0.011, 0.019)
        depth = 0.3 if film["kind"] == "box" else 0.6
        out.append({"name": TERMINAL_NAMES[i], "side": sides[i], "span": [r3(lo), r3(hi)], "depth": depth})
    return out


def gen_probes(rnd, film, holes, n):
    if not n:
        return None
    hw, hh = film_half_extent(film)
    pts = []
    xs = [-0.6, 0.6, 0.0, -0.3][:n]
    for x in xs:
        pts.append([r3(x * hw + rnd.uniform(-0.03, 0.03)), r3(rnd.choice([-0.6, 0.6, 0.55]) * hh * (0.9 if film["kind"] == "box" else 0.6))])
    return pts


def gen_device(rnd, size="small", n_terminals=None, n_probes=None, n_holes=None, length_units=None, gamma=None, screening=False):
    lu = length_units or rnd.choice(UNIT_LEN)
    film = gen_film(rnd, size)
    holes = gen_holes(rnd, film, n_holes)
    if n_terminals is None:
        n_terminals = rnd.choice([0, 2, 2, 3, 4])
    if n_probes is None:
        n_probes = rnd.choice([0, 2, 3])
    mesh = {"max_edge_length": 0, "smooth": rnd.choice([0, 0, 1, 3])}
    if size == "medium" and rnd.random() < 0.5:
        mesh["max_edge_length"] = rnd.choice([1.0, 1.5])
    return {
        "name": "dev",
        "length_units": lu,
        "layer": gen_layer(rnd, lu, gamma=gamma, screening=screening),
        "film": film,
        "holes": holes,
        "terminals": gen_terminals(rnd, film, n_terminals),
        "probes": gen_probes(rnd, film, holes, n_probes),
        "mesh": mesh,
    }


def base_options(**kw):
    o = {
        "solve_time": 0.1,
        "skip_time": 0.0,
        "dt_init": 0.01,
        "dt_max": 0.1,
        "adaptive": False,
        "save_every": 5,
        "progress_interval": 1000000,
        "field_units": "mT",
        "current_units": "uA",
        "include_screening": False,
        "pause_on_interrupt": False,
    }
    o.update(kw)
    return o


def seq_sum(dts, n=None):
    """Sequential float sum, the natural reading of 'sum of the first s time steps'."""
    t = 0.0
    for d in dts[: (len(dts) if n is None else n)]:
        t += d
    return t


def gen_amplitude(rnd, scale=1.0):
    """Integers, dyadic rationals and non-representable decimals."""
    kind = rnd.choice(["int", "dyadic", "dec", "dec"])
    if kind == "int":
        return float(rnd.choice([1, 2, 3, 5, 7])) * scale
    if kind == "dyadic":
        return rnd.choice([0.5, 0.25, 1.5, 2.75]) * scale
    return rnd.choice([0.1, 0.3, 0.7, 1.1, 2.3, 1e-3, 0.123456789]) * scale


def balanced_currents(rnd, names, scale=1.0):
    """A balanced assignment: the last terminal takes minus the sum of the others,
    computed in decimal so that the *mathematical* sum is exactly zero even when the
    float sum is not (e.g. 0.1 + 0.2 - 0.3)."""
    from fractions import Fraction

    vals = [gen_amplitude(rnd, scale) * rnd.choice([1, 1, -1]) for _ in names[:-1]]
    total = sum(Fraction(repr(v)) for v in vals)
    last = -float(total)
    return dict(zip(names, vals + [last]))
