"""Seeded scenario generation (swarm style). Everything is a pure function of the
``random.Random`` passed in; scenarios are plain JSON-serialisable dicts."""
import math

UNIT_LEN = ("um", "nm", "mm")
UNIT_FIELD = ("mT", "uT", "T")
UNIT_CUR = ("uA", "nA", "mA")
LEN_FACTOR = {"um": 1.0, "nm": 1e3, "mm": 1e-3, "m": 1e-6}  # value of 1 um in the unit ("m" is used by C06/C01 only: it is not in C08's list of unit systems)
FIELD_FACTOR = {"mT": 1.0, "uT": 1e3, "T": 1e-3}  # value of 1 mT in the unit
CUR_FACTOR = {"uA": 1.0, "nA": 1e3, "mA": 1e-3}  # value of 1 uA in the unit

SIDES = ("left", "right", "top", "bottom")
TERMINAL_NAMES = ("source", "drain", "t3", "t4")


def r3(x):
    """Round to keep scenarios readable; values stay exactly representable in JSON."""
    return float(f"{x:.6g}")


def gen_layer(rnd, length_units="um", gamma=None, screening=False):
    xi_um = rnd.choice([0.1, 0.25, 0.5, 1.0])
    lam_um = xi_um * rnd.choice([1.0, 2.0, 4.0, 8.0])
    d_um = rnd.choice([0.01, 0.05, 0.1])
    if screening:
        # strong screening (small Lambda) makes the Polyak iteration fragile; keep kappa_eff moderate
        lam_um = xi_um * rnd.choice([4.0, 8.0])
    f = LEN_FACTOR[length_units]
    if gamma is None:
        gamma = rnd.choice([0.0, 1e-4, 1e-3, 0.1, 1.0, 10.0])
    return {
        "xi": r3(xi_um * f),
        "lam": r3(lam_um * f),
        "d": r3(d_um * f),
        "u": rnd.choice([5.79, 1.0, 0.5, 10.0]),
        "gamma": gamma,
        "z0": 0.0,
    }


def gen_film(rnd, size="small"):
    kind = rnd.choice(["box", "box", "box", "ellipse"])
    if size == "tiny":
        w, h = rnd.choice([3.0, 4.0]), rnd.choice([2.0, 3.0])
        npts = rnd.choice([10, 12, 14])
    elif size == "small":
        w, h = rnd.choice([4.0, 5.0, 6.0, 8.0]), rnd.choice([3.0, 4.0, 5.0])
        npts = rnd.choice([16, 20, 24, 28, 36])
    elif size == "large":
        w, h = rnd.choice([12.0, 14.0]), rnd.choice([9.0, 10.0])
        npts = rnd.choice([60, 80])
    else:
        w, h = rnd.choice([6.0, 8.0, 10.0]), rnd.choice([4.0, 6.0])
        npts = rnd.choice([36, 48, 60])
    # perfectly regular meshes make SuperLU hit an exact zero pivot of the (singular)
    # Neumann Laplacian about one time in five; a little irregularity avoids most discards
    w = r3(w + rnd.uniform(0.01, 0.3))
    h = r3(h + rnd.uniform(0.01, 0.3))
    if kind == "box":
        return {"kind": "box", "w": w, "h": h, "npts": npts}
    return {"kind": "ellipse", "a": w / 2, "b": h / 2, "npts": npts}


def film_half_extent(film):
    if film["kind"] == "box":
        return film["w"] / 2, film["h"] / 2
    return film["a"], film["b"]


def gen_holes(rnd, film, n=None):
    hw, hh = film_half_extent(film)
    if n is None:
        n = rnd.choice([0, 0, 1, 1, 2])
    holes = []
    if n == 0:
        return holes
    r = min(hw, hh) * rnd.choice([0.15, 0.2, 0.25])
    if n == 1:
        centers = [(r3(rnd.uniform(-0.2, 0.2) * hw), r3(rnd.uniform(-0.2, 0.2) * hh))]
    else:
        r = min(hw / 2, hh) * 0.2
        centers = [(r3(-0.45 * hw), r3(rnd.uniform(-0.1, 0.1) * hh)), (r3(0.45 * hw), r3(rnd.uniform(-0.1, 0.1) * hh))]
    for i, c in enumerate(centers):
        if rnd.random() < 0.7:
            holes.append({"kind": "ellipse", "a": r3(r), "b": r3(r * rnd.choice([1.0, 0.7])), "npts": rnd.choice([6, 8, 10]), "c": list(c), "name": f"hole{i}"})
        else:
            holes.append({"kind": "box", "w": r3(1.6 * r), "h": r3(1.2 * r), "npts": 8, "c": list(c), "name": f"hole{i}"})
    return holes


def gen_terminals(rnd, film, n, overlap=False):
    """n terminals on distinct sides, spans jittered so that no boundary point sits on a
    terminal polygon's outline."""
    if n == 0:
        return []
    if film["kind"] == "ellipse":
        sides = ["left", "right"] + (["top", "bottom"] if n > 2 else [])
    else:
        sides = list(SIDES)
        if n == 2 and rnd.random() < 0.7:
            sides = ["left", "right"]
        else:
            rnd.shuffle(sides)
    out = []
    for i in range(n):
        lo = rnd.choice([0.0, 0.1, 0.2]) + rnd.uniform(0.011, 0.019)
        hi = rnd.choice([1.0, 0.9, 0.8]) - rnd.uniform(0.011, 0.019)
        if film["kind"] == "ellipse":
            lo, hi = 0.25 + rnd.uniform(0.011, 0.019), 0.75 - rnd.uniform(0.011, 0.019)
        depth = 0.3 if film["kind"] == "box" else 0.6
        out.append({"name": TERMINAL_NAMES[i], "side": sides[i], "span": [r3(lo), r3(hi)], "depth": depth})
    if overlap and n >= 3 and film["kind"] == "box":
        # the last terminal shares part of the first terminal's side: boundary sites in both polygons
        a = out[0]["span"]
        mid = 0.5 * (a[0] + a[1])
        out[0]["span"] = [a[0], r3(mid + 0.12 + rnd.uniform(0.0, 0.01))]
        out[-1]["side"] = out[0]["side"]
        out[-1]["span"] = [r3(mid - 0.12 - rnd.uniform(0.0, 0.01)), a[1]]
    return out


def gen_probes(rnd, film, holes, n):
    if not n:
        return None
    hw, hh = film_half_extent(film)
    pts = []
    xs = [-0.6, 0.6, 0.0, -0.3][:n]
    for x in xs:
        px = x * hw + rnd.uniform(-0.03, 0.03)
        py = rnd.choice([-0.6, 0.6, 0.55]) * hh * (0.9 if film["kind"] == "box" else 0.6)
        def clear(qx, qy):
            # inside the film with a margin, and clear of every hole (bounding circle + margin)
            if film["kind"] == "box":
                if abs(qx) > 0.93 * hw or abs(qy) > 0.93 * hh:
                    return False
            elif (qx / hw) ** 2 + (qy / hh) ** 2 > 0.8:
                return False
            for hole in holes:
                c = hole.get("c", [0.0, 0.0])
                rad = max(hole.get("a", 0), hole.get("b", 0), hole.get("w", 0) / 2, hole.get("h", 0) / 2) * 1.3
                if (qx - c[0]) ** 2 + (qy - c[1]) ** 2 < rad**2:
                    return False
            return True

        if not clear(px, py):
            sy = 1.0 if film["kind"] == "box" else 0.55
            for qx, qy in [(px, 0.8 * hh * sy), (px, -0.8 * hh * sy), (px + 0.25 * hw, py), (px - 0.25 * hw, py), (px + 0.25 * hw, -py), (px - 0.25 * hw, -py), (0.75 * hw * sy, 0.0), (-0.75 * hw * sy, 0.0)]:
                if clear(qx, qy):
                    px, py = qx, qy
                    break
        pts.append([r3(px), r3(py)])
    return pts


def gen_device(rnd, size="small", n_terminals=None, n_probes=None, n_holes=None, length_units=None, gamma=None, screening=False, overlap=False):
    lu = length_units or rnd.choice(UNIT_LEN)
    film = gen_film(rnd, size)
    holes = gen_holes(rnd, film, n_holes)
    if n_terminals is None:
        n_terminals = rnd.choice([0, 2, 2, 3, 4])
    if n_probes is None:
        n_probes = rnd.choice([0, 2, 3])
    mesh = {"max_edge_length": 0, "smooth": rnd.choice([0, 0, 1, 3])}
    if size == "medium" and rnd.random() < 0.5:
        mesh["max_edge_length"] = rnd.choice([1.0, 1.5])
    if size == "large":
        mesh["max_edge_length"] = rnd.choice([0.6, 0.7])  # 500..1200 sites
    layer = gen_layer(rnd, lu, gamma=gamma, screening=screening)
    # the height of the film: three devices in eight do not lie in the plane z = 0 (derived from the
    # jittered film size, so that no other draw of the scenario moves)
    zsel = int(round((film.get("w") or film.get("a")) * 1e5)) % 8
    layer["z0"] = r3({0: 0.75, 1: -0.4, 2: 2.0}.get(zsel, 0.0) * layer["xi"])
    return {
        "name": "dev",
        "length_units": lu,
        "layer": layer,
        "film": film,
        "holes": holes,
        "terminals": gen_terminals(rnd, film, n_terminals, overlap=overlap),
        "probes": gen_probes(rnd, film, holes, n_probes),
        "mesh": mesh,
    }


def base_options(**kw):
    o = {
        "solve_time": 0.1,
        "skip_time": 0.0,
        "dt_init": 0.01,
        "dt_max": 0.1,
        "adaptive": False,
        "save_every": 5,
        "progress_interval": 1000000,
        "field_units": "mT",
        "current_units": "uA",
        "include_screening": False,
        "pause_on_interrupt": False,
    }
    o.update(kw)
    return o


def seq_sum(dts, n=None):
    """Sequential float sum, the natural reading of 'sum of the first s time steps'."""
    t = 0.0
    for d in dts[: (len(dts) if n is None else n)]:
        t += d
    return t


def gen_amplitude(rnd, scale=1.0):
    """Integers, dyadic rationals and non-representable decimals."""
    kind = rnd.choice(["int", "dyadic", "dec", "dec"])
    if kind == "int":
        return float(rnd.choice([1, 2, 3, 5, 7])) * scale
    if kind == "dyadic":
        return rnd.choice([0.5, 0.25, 1.5, 2.75]) * scale
    return rnd.choice([0.1, 0.3, 0.7, 1.1, 2.3, 1e-3, 0.123456789]) * scale


def balanced_currents(rnd, names, scale=1.0):
    """A balanced assignment: the last terminal takes minus the sum of the others,
    computed in decimal so that the *mathematical* sum is exactly zero even when the
    float sum is not (e.g. 0.1 + 0.2 - 0.3)."""
    from fractions import Fraction

    vals = [gen_amplitude(rnd, scale) * rnd.choice([1, 1, -1]) for _ in names[:-1]]
    total = sum(Fraction(repr(v)) for v in vals)
    last = -float(total)
    return dict(zip(names, vals + [last]))


# --------------------------------------------------------------------------------------
# Engine-A physics scenarios (shared by C01, C02, C06, C10, C12, C13, C17, ...)
# --------------------------------------------------------------------------------------
def gen_current_spec(rnd, names, solve_time, cur_units, dynamic=None):
    f = CUR_FACTOR[cur_units]
    scale = rnd.choice([0.2, 1.0, 3.0]) * f
    if dynamic is None:
        dynamic = rnd.random() < 0.5
    if not dynamic:
        I = balanced_currents(rnd, names, scale)
        if rnd.random() < 0.15:
            return {"kind": "const_callable", "I": I}
        return {"kind": "const", "I": I}
    kind = rnd.choice(["pw", "pw", "ramp"])
    if kind == "pw":
        nseg = rnd.choice([2, 3, 4])
        times = sorted(r3(rnd.uniform(0.05, 0.95) * solve_time) for _ in range(nseg - 1))
        if rnd.random() < 0.3:
            times[0] = 0.0  # a change on the very first step (after thermalisation too)
        elif rnd.random() < 0.3:
            # a narrow feature: a switch right after the start / right before the end, or a short pulse
            # (a sampling of the time axis sees it only now and then)
            w = rnd.choice([0.003, 0.007, 0.02]) * solve_time
            shape = rnd.choice(["early", "late", "pulse"])
            if shape == "early":
                times[0] = float(f"{w:.6g}")
            elif shape == "late":
                times[-1] = float(f"{solve_time - w:.6g}")
            elif nseg >= 3:
                times[1] = float(f"{times[0] + w:.6g}")
            times = sorted(times)
        vals = [balanced_currents(rnd, names, scale) for _ in range(nseg)]
        if nseg >= 3 and rnd.random() < 0.5:
            vals[-1] = dict(vals[0])  # return to an earlier value (boundary-condition cache)
        if rnd.random() < 0.3:
            # one terminal switched to exactly zero; the others re-balanced
            z = {k: 0.0 for k in names}
            if len(names) > 2:
                a = gen_amplitude(rnd, scale)
                z[names[0]], z[names[1]] = a, -a
            vals[rnd.randrange(nseg)] = z
        return {"kind": "pw", "times": times, "values": vals, "reuse_dict": rnd.random() < 0.3}
    return {
        "kind": "ramp",
        "reuse_dict": rnd.random() < 0.3,
        "I0": balanced_currents(rnd, names, scale),
        "I1": balanced_currents(rnd, names, scale),
        "tmin": r3(0.1 * solve_time),
        "tmax": r3(0.8 * solve_time),
    }


def gen_field_spec(rnd, solve_time, field_units, kinds=("zero", "const", "ramp", "pw", "sin"), xi_um=0.5, cur_units="uA"):
    f = FIELD_FACTOR[field_units]
    # field scale: a fraction of Bc2 = Phi0/(2 pi xi^2); Bc2(xi=0.5um) ~ 1.3 mT
    bc2_mT = 2.0678e-15 / (2 * math.pi * (xi_um * 1e-6) ** 2) * 1e3
    B = r3(rnd.choice([0.05, 0.2, 0.5]) * bc2_mT * f * rnd.choice([1, 1, -1]))
    kind = rnd.choice(list(kinds))
    if kind == "loop":
        # a current loop above the film: field at its centre mu_0 I / (2 R) ~ a fraction of Bc2
        R = rnd.choice([2.0, 3.0, 5.0])
        frac = rnd.choice([0.05, 0.2, 0.4])
        I_A = 2 * (R * xi_um * 1e-6) * (frac * bc2_mT * 1e-3) / (4e-7 * math.pi)
        return {"kind": "loop", "I": r3(I_A * 1e6 * CUR_FACTOR[cur_units] * rnd.choice([1, -1])), "R": R, "c": [rnd.choice([0.0, 0.5, -1.0]), rnd.choice([0.0, 0.3]), rnd.choice([0.5, 1.0, 2.0])]}
    if kind == "zero":
        return {"kind": "zero"}
    if kind == "wave":
        # a travelling-wave potential: an array-valued, time- and position-dependent leaf Parameter
        return {"kind": "wave", "B": B, "kx": rnd.choice([0.3, 0.7, 1.3]), "ky": rnd.choice([0.2, 0.5, 1.1]), "w": r3(rnd.choice([0.5, 1.5, 3.0]) / solve_time)}
    if kind == "const":
        k2 = rnd.choice(["const", "const_param", "plain"])
        if k2 == "plain":
            return {"kind": "plain", "shape": rnd.choice(["ok3", "ok2"]), "B": B}
        return {"kind": k2, "B": B}
    if kind == "ramp":
        return {"kind": "ramp", "B": B, "tmin": r3(rnd.choice([0.0, 0.2]) * solve_time), "tmax": r3(rnd.choice([0.6, 1.0, 3.0]) * solve_time), "initial": rnd.choice([0.0, 0.0, 1.0, -0.5]), "final": rnd.choice([1.0, 0.0, 2.0])}
    if kind == "pw":
        n = rnd.choice([2, 3, 4])
        times = sorted(r3(rnd.uniform(0.05, 0.95) * solve_time) for _ in range(n - 1))
        vals = [rnd.choice([0.0, 1.0, 0.5, -1.0, 0.3]) for _ in range(n)]
        if n >= 3:
            vals[-1] = vals[0]
        return {"kind": "pw", "B": B, "times": times, "values": vals}
    return {"kind": "sin", "B": B, "omega": r3(rnd.choice([0.5, 2.0, 6.0]) / solve_time), "phase": rnd.choice([0.0, 1.0]), "offset": rnd.choice([0.0, 0.5])}


def gen_epsilon_spec(rnd, kinds=("none", "none", "const", "spatial", "scalar_spatial", "timedep")):
    k = rnd.choice(list(kinds))
    if k == "none":
        return None
    if k == "const":
        return {"kind": "const", "v": rnd.choice([1.0, 0.5, 0.0, -0.5, -1.0])}
    if k in ("spatial", "scalar_spatial"):
        return {"kind": k, "amp": rnd.choice([0.3, 1.0, 1.5]), "k": [rnd.choice([0.5, 2.0]), rnd.choice([0.0, 1.0])], "base": rnd.choice([1.0, 0.5])}
    if k == "int_step":
        return {"kind": "int_step", "side": rnd.choice([1, -1]), "lo": rnd.choice([1, 1, 0]), "hi": rnd.choice([0.5, 0.3, -0.4, 0.9])}
    return {"kind": "timedep", "amp": rnd.choice([0.2, 0.8]), "omega": rnd.choice([1.0, 10.0]), "base": rnd.choice([1.0, 0.7])}


def gen_physics(rnd, **p):
    """A full Engine-A scenario. ``p`` narrows the swarm:
    n_terminals, screening, adaptive, therm, field_kinds, dyn_currents, eps_kinds,
    steps=(lo, hi), dt_choices, terminal_psi, units(bool), refuse(prob), size"""
    units = p.get("units", True)
    lu = rnd.choice(UNIT_LEN) if units else "um"
    fu = rnd.choice(UNIT_FIELD) if units else "mT"
    cu = rnd.choice(UNIT_CUR) if units else "uA"
    screening = p["screening"] if "screening" in p else (rnd.random() < 0.15)
    n_term = p["n_terminals"] if "n_terminals" in p else rnd.choice([0, 2, 2, 3, 4])
    dev = gen_device(
        rnd,
        size=p.get("size", "small"),
        n_terminals=n_term,
        n_probes=p.get("n_probes"),
        n_holes=p.get("n_holes"),
        length_units=lu,
        gamma=p.get("gamma"),
        screening=screening,
        overlap=(rnd.random() < p.get("p_overlap", 0.0)),
    )
    xi_um = dev["layer"]["xi"] / LEN_FACTOR[lu]
    adaptive = p["adaptive"] if "adaptive" in p else (rnd.random() < 0.5)
    dt_init = rnd.choice(p.get("dt_choices", [1e-4, 1e-3, 0.01, 0.01, 0.05, 0.2]))
    lo, hi = p.get("steps", (3, 30))
    steps = rnd.randint(lo, hi)
    if screening:
        steps = min(steps, 6)  # screening costs 10..1000 kernel evaluations per step
    solve_time = r3(dt_init * steps * rnd.choice([1.0, 0.97, 1.0]))
    therm = p["therm"] if "therm" in p else (rnd.random() < 0.2)
    opts = base_options(
        solve_time=solve_time,
        skip_time=r3(dt_init * rnd.randint(1, 6)) if therm else 0.0,
        dt_init=dt_init,
        dt_max=r3(dt_init * rnd.choice([1.0, 2.0, 10.0, 100.0])) if adaptive else max(dt_init, 0.1),
        adaptive=adaptive,
        adaptive_window=rnd.choice([1, 2, 3, 5, 10]),
        max_solve_retries=rnd.choice([0, 1, 3, 10]),
        adaptive_time_step_multiplier=rnd.choice([0.25, 0.5, 0.1, 0.9]),
        save_every=rnd.choice([1, 2, 5, 7, 100]),
        field_units=fu,
        current_units=cu,
        include_screening=screening,
    )
    if "terminal_psi" in p:
        opts["terminal_psi"] = p["terminal_psi"]
    elif n_term and rnd.random() < 0.3:
        opts["terminal_psi"] = rnd.choice([None, 0.0, 0.0, 1.0, 0.5, {"re": 0.3, "im": 0.4}])
    if screening:
        opts["screening_tolerance"] = rnd.choice([1e-2, 1e-3, 1e-4])
        opts["screening_step_size"] = rnd.choice([0.1, 0.3, 1.0])
        opts["screening_step_drag"] = rnd.choice([0.5, 0.9, 1.0])
        opts["max_iterations_per_step"] = 1000
    names = [t["name"] for t in dev["terminals"]]
    currents = None
    if names and rnd.random() < p.get("p_currents", 0.85):
        currents = gen_current_spec(rnd, names, solve_time, cu, dynamic=p.get("dyn_currents"))
    field = gen_field_spec(rnd, solve_time, fu, kinds=p.get("field_kinds", ("zero", "const", "ramp", "pw", "sin", "loop", "wave")), xi_um=xi_um, cur_units=cu)
    eps = gen_epsilon_spec(rnd, kinds=p.get("eps_kinds", ("none", "none", "none", "const", "spatial", "scalar_spatial", "timedep")))
    faults = []
    if rnd.random() < p.get("refuse", 0.0) and adaptive:
        nf = rnd.choice([1, 1, 2, 3])
        for _ in range(nf):
            faults.append({"kind": "refuse", "at": {"stage": "S", "step": rnd.randint(0, max(0, steps - 1)), "attempts": list(range(rnd.choice([1, 1, 2, 3]))), "iter": 0}})
    out = {
        "physics": "real",
        "device": dev,
        "options": opts,
        "drive": {"field": field, "currents": currents, "epsilon": eps},
        "observer": {"output": None},
        "env": {},
        "faults": faults,
        "meta": {"steps": steps},
    }
    if rnd.random() < p.get("p_remesh", 0.0):
        # device life cycle: the same Device object was meshed differently (and used) before
        out["device_history"] = [{"max_edge_length": rnd.choice([0, 0, 1.5, 1.0]), "smooth": rnd.choice([0, 2])} for _ in range(rnd.choice([1, 1, 2]))]
        if rnd.random() < 0.6:
            # coarse first, fine last (stale indices of an earlier mesh stay in range of the final one)
            out["device_history"][0] = {"max_edge_length": 0, "smooth": 0}
            out["device"]["mesh"] = {"max_edge_length": rnd.choice([1.0, 1.5]), "smooth": rnd.choice([0, 1])}
    return out


def maybe_solve_twice(rnd, scn, p=0.08):
    """Solver life cycle: with probability p the same TDGLSolver object is solved twice (the recorded
    history is kept per solve; online invariants judge both)."""
    if rnd.random() < p and not scn.get("reload_phase") and not scn.get("seed_phase") and all(f["kind"] == "refuse" for f in scn.get("faults", [])):
        scn["solve_twice"] = True
        scn["meta"]["lifecycle"] = "solve_twice"
    return scn


def maybe_sibling(rnd, scn, p=0.1):
    """With probability p a second TDGLSolver is constructed on the same Device object (before or after
    the solver under test) with another applied field, and kept alive during the run."""
    if rnd.random() < p:
        scn["sibling"] = {"when": rnd.choice(["before", "after"]), "field": {"kind": "const", "B": rnd.choice([0.3, 0.7, 1.5])}}
        if scn["device"].get("terminals") and rnd.random() < 0.5:
            tp = scn["options"].get("terminal_psi", 0.0)
            scn["sibling"]["terminal_psi"] = 0.0 if tp is None else None
    return scn


def maybe_restored(rnd, scn, p=0.1):
    """With probability p the run uses the Device read back from an HDF5 file it was saved to."""
    if rnd.random() < p:
        scn["device_restored"] = True
    return scn


def maybe_moved(rnd, scn, p=0.1):
    """With probability p the meshed Device is translated in place (by a few coherence lengths) before use."""
    if rnd.random() < p:
        scn["device_moved"] = {"dx": rnd.choice([0.0, 0.7, -1.3, 2.5]), "dy": rnd.choice([0.4, -0.9, 1.7])}
        scn["device_moved"]["dz"] = {2.5: 0.5, -1.3: -0.25}.get(scn["device_moved"]["dx"], 0.0)
    return scn


GUEST_POINTS = ("update.before", "update.after", "attempt", "attempt", "screen", "refresh.before", "save.before", "save.after", "line", "line", "line")
GUEST_LINE_FUNCS = ("update", "update", "_run_stage", "_run_stage", "save_time_step", "_save_time_step", "adaptive_euler_step", "solve_for_observables", "update_mu_boundary", "append", "solve_for_psi_squared", "solve_for_psi_squared", "set_link_exponents", "get_induced_vector_potential", "*", "*", "*")


def gen_guests(rnd, scn, n=None):
    """Schedule decisions 'another simulation runs here': one or two complete solves on the same Device
    object, each executed at a seam of the run under test (between two steps, inside a step right before
    the psi update / a screening iteration / an operator refresh, around a frame write)."""
    o = scn["options"]
    steps = max(1, int(scn.get("meta", {}).get("steps", 5)))
    fu = o.get("field_units", "mT")
    out = []
    for _ in range(n or rnd.choice([1, 1, 2])):
        point = rnd.choice(GUEST_POINTS)
        if point == "screen" and not o.get("include_screening"):
            point = "attempt"
        at = {"point": point, "stage": "T" if (o.get("skip_time") and rnd.random() < 0.2) else "S", "step": rnd.randint(0, max(0, min(steps, 12) - 1))}
        if point == "line":
            # a line-level pre-emption point of the update, the run loop or the frame writer (n-th line event
            # of the function in the stage)
            fn = rnd.choice(GUEST_LINE_FUNCS)
            if fn == "*":
                # the n-th line the library executes in the stage, in whatever function (new helpers included)
                at = {"point": "line", "stage": at["stage"], "func": "*", "ordinal": rnd.randint(5, 250 * max(1, min(steps, 12)))}
                # ... or the n-th line executed INSIDE one kind of seam (all its occurrences in the stage counted
                # together): the psi update, a screening iteration, an operator refresh, a frame write
                w_ = rnd.choice([None, "psi", "psi", "refresh", "refresh", "screen", "writer"])
                if w_ == "screen" and not o.get("include_screening"):
                    w_ = "psi"
                if w_ is not None:
                    at["within"] = w_
                    at["ordinal"] = rnd.randint(0, 30) + 25 * rnd.randint(0, max(0, min(steps, 8) - 1))
            else:
                at = {"point": "line", "stage": at["stage"], "func": fn, "ordinal": rnd.randint(1, 12) if fn in ("save_time_step", "_save_time_step") else rnd.randint(2, (12 if fn in ("solve_for_psi_squared", "set_link_exponents") else 40) * max(1, min(steps, 12)))}
        elif point in ("save.before", "save.after"):
            at["step"] = None  # the first frame written from the chosen occurrence on
            at["nth"] = rnd.choice([0, 0, 1, 2])
        elif point in ("screen", "refresh.before", "attempt"):
            at["nth"] = rnd.choice([0, 0, 1, 3])
            if point == "attempt" and not o.get("include_screening"):
                at["nth"] = 0
        mode = rnd.choice(["same", "same", "other-field", "sibling"])
        what = {"mode": mode, "steps": rnd.choice([1, 2, 3]), "save_every": rnd.choice([1, 2, 100])}
        if mode == "other-field":
            what["field"] = {"kind": "const", "B": r3(rnd.choice([0.3, -0.7, 1.5]) * FIELD_FACTOR[fu])}
        if mode == "sibling" and not scn.get("sibling"):
            what["mode"] = "same"
        if scn["device"].get("terminals") and rnd.random() < 0.3:
            tp = o.get("terminal_psi", 0.0)
            what["terminal_psi"] = 0.0 if tp is None else None
        if rnd.random() < 0.25:
            what["screening"] = not bool(o.get("include_screening"))
        # the other simulation is another point of a sweep: other terminal currents, another disorder
        # (drawn from a stream of their own: the guests generated before these existed stay as they were)
        v = __import__("random").Random(rnd.getrandbits(32))
        if scn["drive"].get("currents") is not None and v.random() < 0.5 and what["mode"] != "sibling":
            what["currents_scale"] = v.choice([3.5, -1.0, 0.0, 0.3])
        if v.random() < 0.35 and what["mode"] != "sibling":
            what["epsilon"] = {"kind": "const", "v": v.choice([0.3, 0.6, -0.5])}
        out.append({"at": at, "what": what})
    return out


def add_lifecycles(rnd, scn, p_derived=0.08, p_entry=0.12, p_used=0.06, p_prior=0.0, p_sibling=0.05, p_metres=0.0, p_reoriented=0.0, p_guest=0.06):
    """Object life cycles every Engine-A workload shares (drawn from their own sub-stream, so the
    scenario a property's generator produced is left as it is): the Device handed to the solver is
    derived from the meshed one (copy / deep copy / pickled copy / identity transform + re-mesh), and
    the run is started through the convenience entry point tdgl.solve() instead of TDGLSolver()."""
    if isinstance(scn, dict) and isinstance(scn.get("base"), dict):
        # groups (C11): the life cycle belongs to the physics scenario every member executes
        add_lifecycles(rnd, scn["base"], p_derived, p_entry, p_used, p_prior, p_sibling, p_metres, p_reoriented, p_guest)
        return scn
    if not isinstance(scn, dict) or scn.get("physics") != "real" or "device" not in scn:
        return scn
    if rnd.random() < p_derived and not scn.get("device_history") and not scn.get("device_moved"):
        scn["device_derived"] = rnd.choice(["copy", "copy+orig-moved", "deepcopy", "pickle", "rotate0", "scale1"])
    if rnd.random() < p_entry and not scn.get("options_late") and not scn.get("solve_twice"):
        scn["entry"] = "function"
    if rnd.random() < p_used and not scn.get("device_history"):
        # the Device object was already simulated on before (and before it is moved / saved / copied)
        fu = scn["options"].get("field_units", "mT")
        scn["device_used_before"] = {"steps": rnd.choice([2, 3]), "B": r3(0.2 * FIELD_FACTOR[fu]), "terminal_psi": rnd.choice(["zero", "none"])}
        if rnd.random() < 0.5:
            lay = scn["device"]["layer"]
            attr = rnd.choice(["london_lambda", "london_lambda", "thickness", "gamma", "u"])
            scn["device_used_before"]["layer_was"] = {attr: {"london_lambda": r3(lay["lam"] * 2), "thickness": r3(lay["d"] * 0.5), "gamma": lay["gamma"] + 1.0, "u": lay["u"] * 2}[attr]}
            scn["device_used_before"]["screening"] = bool(scn["options"].get("include_screening"))
    if rnd.random() < p_prior and not scn.get("options_late") and not scn.get("reload_phase") and not scn.get("seed_phase"):
        # the SolverOptions object has a history: it was used before on a variant of the device and is
        # handed over untouched, or it was constructed (and maybe used) with other values of some fields
        # which the caller then assigned, one attribute at a time, to the values of this run
        o = scn["options"]
        pr = {"variant": rnd.choice(["no-terminals", "no-terminals", "same", "no-holes"]), "steps": rnd.choice([2, 3]), "run": rnd.random() < 0.7, "changed": {}}
        if rnd.random() < 0.6:
            for field in rnd.sample(["adaptive", "dt_max", "dt_init", "save_every", "terminal_psi", "adaptive_window", "max_solve_retries"], rnd.choice([1, 1, 2, 3])):
                if field == "adaptive":
                    pr["changed"][field] = not o.get("adaptive", True)
                elif field == "dt_max":
                    pr["changed"][field] = r3(max(o.get("dt_max", 0.1), o["dt_init"]) * rnd.choice([10.0, 100.0]))
                elif field == "dt_init":
                    pr["changed"][field] = r3(o["dt_init"] * rnd.choice([0.5, 0.1]))
                elif field == "save_every":
                    pr["changed"][field] = rnd.choice([1, 3, 50])
                elif field == "terminal_psi":
                    pr["changed"][field] = rnd.choice([None, 0.0, 0.5])
                elif field == "adaptive_window":
                    pr["changed"][field] = rnd.choice([1, 4, 15])
                else:
                    pr["changed"][field] = rnd.choice([0, 2, 7])
        scn["options_prior_use"] = pr
    if rnd.random() < p_metres and scn["device"]["length_units"] != "m" and not scn.get("reload_phase"):
        in_metres(scn)
    if rnd.random() < p_reoriented and not any(scn.get(k) for k in ("device_history", "device_moved", "device_restored", "device_derived", "reload_phase", "seed_phase")):
        scn["mesh_reoriented"] = {"seed": rnd.randrange(10**6), "frac": rnd.choice([0.1, 0.3, 0.5, 1.0])}
    if rnd.random() < p_sibling and not scn.get("sibling"):
        # a second solver alive on the same Device with another applied field (see maybe_sibling)
        maybe_sibling(rnd, scn, 1.0)
    # drawn last, from a sub-stream of its own, so that every scenario generated before this life cycle
    # existed stays exactly as it was
    g = __import__("random").Random(rnd.getrandbits(64))
    if g.random() < p_guest and not scn.get("seed_phase") and not scn.get("reload_phase") and not scn.get("guests"):
        scn["guests"] = gen_guests(g, scn)
    return scn


def in_metres(scn):
    """The same device stated in metres (coordinates of order 1e-6): absolute geometric tolerances that are
    harmless for micrometre-sized numbers become comparable with the device."""
    lu0 = scn["device"]["length_units"]
    f = LEN_FACTOR["m"] / LEN_FACTOR[lu0]
    scn["device"]["length_units"] = "m"
    for k in ("xi", "lam", "d", "z0"):
        scn["device"]["layer"][k] = float(f"{scn['device']['layer'].get(k, 0.0) * f:.6g}")
    return scn
