"""Scenario (pure data) -> tdgl objects.

Geometry in a DeviceSpec is stated in units of the coherence length (dimensionless);
physical coordinates are obtained by multiplying with ``layer.xi`` (the coherence length
in ``length_units``).  Meshes are cached per DeviceSpec digest inside a worker.
"""
import math

import numpy as np

from . import si
from .common import Discard, digest_obj

_DEVICE_CACHE = {}
_CACHE_MAX = 64


# --------------------------------------------------------------------------------------
# geometry
# --------------------------------------------------------------------------------------
def _shape_points(shape, xi):
    from tdgl.geometry import box, ellipse

    kind = shape["kind"]
    c = shape.get("c", [0.0, 0.0])
    center = (c[0] * xi, c[1] * xi)
    if kind == "box":
        return box(shape["w"] * xi, shape["h"] * xi, points=shape["npts"], center=center)
    if kind == "ellipse":
        return ellipse(shape["a"] * xi, shape["b"] * xi, points=shape["npts"], center=center)
    if kind == "poly":
        return np.asarray(shape["pts"], dtype=float) * xi
    raise ValueError(kind)


def terminal_polygon_points(term, film, xi):
    """Terminal = small box straddling one side of the film's bounding box."""
    from tdgl.geometry import box

    if film["kind"] == "box":
        hw, hh = film["w"] / 2, film["h"] / 2
    elif film["kind"] == "ellipse":
        hw, hh = film["a"], film["b"]
    else:
        pts = np.asarray(film["pts"])
        hw, hh = np.abs(pts[:, 0]).max(), np.abs(pts[:, 1]).max()
    lo, hi = term["span"]
    depth = term.get("depth", 0.3)
    side = term["side"]
    if term.get("inside"):
        # C19: a terminal polygon strictly inside the film touches no boundary edge
        return box(0.4 * hw * xi, 0.4 * hh * xi, points=8, center=(0.05 * hw * xi, 0.07 * hh * xi))
    if side in ("left", "right"):
        x = -hw if side == "left" else hw
        y0, y1 = -hh + lo * 2 * hh, -hh + hi * 2 * hh
        pts = box(2 * depth * xi, (y1 - y0) * xi, points=8, center=(x * xi, (y0 + y1) / 2 * xi))
    else:
        y = -hh if side == "bottom" else hh
        x0, x1 = -hw + lo * 2 * hw, -hw + hi * 2 * hw
        pts = box((x1 - x0) * xi, 2 * depth * xi, points=8, center=((x0 + x1) / 2 * xi, y * xi))
    return pts


def build_device(spec, mesh_from=None, history=None):
    """Build (or fetch from the per-worker cache) a meshed tdgl.Device.

    history: optional list of earlier mesh settings; the SAME Device object is meshed with each
    of them and used (terminal_info, probe indices) before it gets its final mesh - the
    life cycle "mesh, look, re-mesh, solve" of an interactive session."""
    import tdgl

    if history:
        first = dict(spec, mesh=history[0])
        dev = build_device(first, mesh_from=None, history=None)
        # never mutate a cached object: work on a private copy that keeps the mesh
        dev = dev.copy(with_mesh=True)
        xi = spec["layer"]["xi"]
        for step in list(history[1:]) + [spec.get("mesh", {})]:
            try:
                dev.terminal_info()
                _ = dev.probe_point_indices
                mel = step.get("max_edge_length", 0)
                dev.make_mesh(max_edge_length=(mel * xi if mel else 0), min_points=step.get("min_points"), smooth=step.get("smooth", 0))
            except Exception as e:
                raise Discard(f"mesh: {type(e).__name__}: {str(e)[:80]}")
        return dev
    key = digest_obj(spec)
    if mesh_from is None and key in _DEVICE_CACHE:
        return _DEVICE_CACHE[key]
    lay = spec["layer"]
    xi = lay["xi"]
    layer = tdgl.Layer(
        coherence_length=xi,
        london_lambda=lay["lam"],
        thickness=lay["d"],
        u=lay.get("u", 5.79),
        gamma=lay.get("gamma", 10.0),
        z0=lay.get("z0", 0.0),
        conductivity=lay.get("conductivity"),
    )
    film = tdgl.Polygon("film", points=_shape_points(spec["film"], xi))
    holes = [
        tdgl.Polygon(h.get("name", f"hole{i}"), points=_shape_points(h, xi))
        for i, h in enumerate(spec.get("holes", []))
    ]
    terminals = [
        tdgl.Polygon(t["name"], points=terminal_polygon_points(t, spec["film"], xi))
        for t in spec.get("terminals", [])
    ]
    probes = spec.get("probes")
    if probes is not None:
        probes = [tuple(c * xi for c in p) for p in probes]
    device = tdgl.Device(
        spec.get("name", "dev"),
        layer=layer,
        film=film,
        holes=holes,
        terminals=terminals,
        probe_points=probes,
        length_units=spec["length_units"],
    )
    if mesh_from is not None:
        # C08 twins: same dimensionless mesh object, different unit system
        device.mesh = mesh_from
        return device
    m = spec.get("mesh", {})
    mel = m.get("max_edge_length", 0)
    try:
        device.make_mesh(
            max_edge_length=(mel * xi if mel else 0),
            min_points=m.get("min_points"),
            smooth=m.get("smooth", 0),
        )
    except Exception as e:  # malformed Voronoi cells etc.: outside every property
        raise Discard(f"mesh: {type(e).__name__}: {str(e)[:80]}")
    if len(_DEVICE_CACHE) >= _CACHE_MAX:
        _DEVICE_CACHE.pop(next(iter(_DEVICE_CACHE)))
    _DEVICE_CACHE[key] = device
    return device


# --------------------------------------------------------------------------------------
# drives: module-level functions so that cloudpickle / Parameter equality see plain code
# --------------------------------------------------------------------------------------
def _pw_value(t, times, values):
    """Piecewise-constant schedule: values[i] for times[i-1] <= t < times[i]."""
    i = 0
    for tt in times:
        if t >= tt:
            i += 1
        else:
            break
    return values[i]


def pw_scale(x, y, z, *, t, times=(), values=(1.0,)):
    return _pw_value(t, times, values)


def sin_scale(x, y, z, *, t, omega=1.0, phase=0.0, offset=0.0):
    return offset + math.sin(omega * t + phase)


def cos_scale(x, y, z, *, t, omega=1.0, phase=0.0, offset=0.0):
    """A sibling of sin_scale: another function with exactly the same keyword arguments."""
    return offset + math.cos(omega * t + phase)


def wave_field(x, y, z, *, t, a=1.0, kx=1.0, ky=0.5, w=1.0):
    """A travelling-wave vector potential: depends on position AND time."""
    x = np.atleast_1d(x)
    y = np.atleast_1d(y)
    return np.stack([a * np.sin(kx * x + w * t), a * np.cos(ky * y - w * t), np.zeros_like(x, dtype=float)], axis=1)


def gauge_grad(x, y, z, *, c=(0.0, 0.0), q=(0.0, 0.0, 0.0), inv_scale=1.0, xi=1.0):
    """grad chi for chi(r) = c.r + 1/2 r^T Q r in dimensionless coordinates r = (x, y)/xi,
    returned in physical vector-potential units (divided by A_scale)."""
    x = np.atleast_1d(x) / xi
    y = np.atleast_1d(y) / xi
    gx = c[0] + q[0] * x + q[1] * y
    gy = c[1] + q[1] * x + q[2] * y
    return inv_scale * np.stack([gx, gy, np.zeros_like(gx)], axis=1)


def chi_of_sites(sites, gauge):
    c = gauge.get("c", (0.0, 0.0))
    q = gauge.get("q", (0.0, 0.0, 0.0))
    x, y = sites[:, 0], sites[:, 1]
    return c[0] * x + c[1] * y + 0.5 * (q[0] * x * x + 2 * q[1] * x * y + q[2] * y * y)


def eps_spatial(r, *, amp=0.5, k=(1.0, 0.0), base=0.5, vectorized=True):
    r = np.atleast_2d(r)
    return base - amp * np.cos(k[0] * r[:, 0] + k[1] * r[:, 1]) ** 2


def eps_scalar_spatial(r, *, amp=0.5, k=(1.0, 0.0), base=0.5):
    return float(base - amp * math.cos(k[0] * r[0] + k[1] * r[1]) ** 2)


def eps_int_step(r, *, side=1, lo=1, hi=0.5):
    """A per-site callable (not vectorised) that returns a python int on one half of the device and a
    float on the other, the way a user writes 'return 1' / 'return 0.5' in a defect region."""
    return hi if side * r[0] > 0 else lo


def eps_ends(r, *, x0=1.0, lo=-1.0, hi=1.0):
    """epsilon = lo near the two ends of the device (|x| > x0, where the contacts are), hi in between."""
    return lo if abs(r[0]) > x0 else hi


def eps_timedep(r, *, t, amp=0.3, omega=1.0, base=0.6, vectorized=True):
    r = np.atleast_2d(r)
    return (base - amp * math.sin(omega * t) ** 2) * np.ones(len(r))


class CurrentSchedule:
    """A picklable time-dependent terminal current: piecewise constant or ramp."""

    def __init__(self, spec):
        self.spec = spec

    def __eq__(self, other):
        return isinstance(other, CurrentSchedule) and other.spec == self.spec

    def __hash__(self):
        return hash(repr(self.spec))

    def __call__(self, t):
        val = self._value(t)
        if self.spec.get("reuse_dict"):
            # a user callable that keeps ONE dict object and updates it in place on every call
            if not hasattr(self, "_d"):
                self._d = {}
            self._d.clear()
            self._d.update(val)
            return self._d
        return val

    def __getstate__(self):
        return {"spec": self.spec}

    def _value(self, t):
        s = self.spec
        if s["kind"] == "pw":
            return dict(_pw_value(t, s["times"], s["values"]))
        if s["kind"] == "ramp":
            t0, t1 = s["tmin"], s["tmax"]
            f = 0.0 if t <= t0 else (1.0 if t >= t1 else (t - t0) / (t1 - t0))
            return {k: s["I0"][k] + f * (s["I1"][k] - s["I0"][k]) for k in s["I0"]}
        raise ValueError(s["kind"])


def current_at(spec, t):
    """Reference evaluation of a current spec (the environment's truth)."""
    if spec is None:
        return {}
    if spec["kind"] in ("const", "const_callable", "main_def"):
        return dict(spec["I"])
    return CurrentSchedule(spec)._value(t)


def define_in_main(name, values):
    """A plain `def` at the top level of __main__ (what a script or notebook cell creates), returning the
    given dict: such functions are pickled by reference by the standard pickle and by value by cloudpickle."""
    import sys

    main = sys.modules["__main__"]
    exec(f"def {name}(time):\n    return {dict(values)!r}\n", main.__dict__)
    fn = getattr(main, name)
    fn.__module__ = "__main__"  # (in a spawned worker the main module calls itself __mp_main__)
    return fn


def scale_current_spec(spec, k):
    """The same drive with every terminal current multiplied by k (still balanced)."""
    import copy as _copy

    if spec is None:
        return None
    s_ = _copy.deepcopy(spec)
    for key in ("I", "I0", "I1"):
        if key in s_:
            s_[key] = {n: v * k for n, v in s_[key].items()}
    if "values" in s_:
        s_["values"] = [{n: v * k for n, v in d.items()} for d in s_["values"]]
    return s_


def build_currents(spec):
    if spec is None:
        return None
    if spec["kind"] == "const":
        return dict(spec["I"])
    if spec["kind"] == "const_callable":
        I = dict(spec["I"])
        return lambda t: I
    if spec["kind"] == "main_def":
        return define_in_main(spec["name"], spec["I"])
    return CurrentSchedule(spec)


def build_epsilon(spec):
    if spec is None or spec["kind"] == "const":
        return 1.0 if spec is None else spec["v"]
    import functools

    if spec["kind"] == "spatial":
        return _bind_kwonly(eps_spatial, amp=spec["amp"], k=tuple(spec["k"]), base=spec["base"])
    if spec["kind"] == "scalar_spatial":
        return _bind_kwonly(eps_scalar_spatial, amp=spec["amp"], k=tuple(spec["k"]), base=spec["base"])
    if spec["kind"] == "timedep":
        return _bind_kwonly(eps_timedep, amp=spec["amp"], omega=spec["omega"], base=spec["base"])
    if spec["kind"] == "int_step":
        return _bind_kwonly(eps_int_step, side=spec["side"], lo=int(spec["lo"]), hi=float(spec["hi"]))
    if spec["kind"] == "ends":
        return _bind_kwonly(eps_ends, x0=float(spec["x0"]), lo=float(spec["lo"]), hi=float(spec["hi"]))
    raise ValueError(spec["kind"])


def _bind_kwonly(func, **bound):
    """Return a function with the same kw-only interface (t, vectorized) as ``func`` but
    with the remaining keyword parameters bound.  The solver inspects
    ``inspect.getfullargspec(f).kwonlyargs`` / ``kwonlydefaults``, so functools.partial
    (whose argspec hides them) is not usable."""
    import inspect

    spec = inspect.getfullargspec(func)
    has_t = "t" in spec.kwonlyargs
    vec = (spec.kwonlydefaults or {}).get("vectorized", False)
    if has_t and vec:

        def f(r, *, t, vectorized=True):
            return func(r, t=t, **bound)

    elif has_t:

        def f(r, *, t):
            return func(r, t=t, **bound)

    elif vec:

        def f(r, *, vectorized=True):
            return func(r, **bound)

    else:

        def f(r):
            return func(r, **bound)

    return f


def eval_epsilon(spec, sites_phys, t):
    """Reference evaluation of epsilon at physical site coordinates."""
    if spec is None:
        return np.ones(len(sites_phys))
    if spec["kind"] == "const":
        return spec["v"] * np.ones(len(sites_phys))
    if spec["kind"] in ("spatial", "scalar_spatial"):
        return eps_spatial(sites_phys, amp=spec["amp"], k=tuple(spec["k"]), base=spec["base"])
    if spec["kind"] == "timedep":
        return eps_timedep(sites_phys, t=t, amp=spec["amp"], omega=spec["omega"], base=spec["base"])
    if spec["kind"] == "int_step":
        x = np.asarray(sites_phys)[:, 0]
        return np.where(spec["side"] * x > 0, float(spec["hi"]), float(spec["lo"]))
    if spec["kind"] == "ends":
        x = np.asarray(sites_phys)[:, 0]
        return np.where(np.abs(x) > float(spec["x0"]), float(spec["lo"]), float(spec["hi"]))
    raise ValueError(spec["kind"])


# --------------------------------------------------------------------------------------
# applied vector potential: expression trees
# --------------------------------------------------------------------------------------
# Tree nodes (JSON):
#   {"leaf": "const_field", "B": b}
#   {"leaf": "ramp", "tmin","tmax","initial","final"}
#   {"leaf": "pw", "times": [...], "values": [...]}
#   {"leaf": "sin", "omega","phase","offset"}
#   {"leaf": "num", "v": number, "int": bool}
#   {"leaf": "loop", ...}  (current loop vector potential)
#   {"leaf": "gauge", "c","q"}
#   {"op": "+|-|*|/|**", "l": node, "r": node}
# A node may carry "share": label; equal labels map to the *same* Parameter object.
def build_tree(node, ctx, shared=None, registry=None):
    """registry: optional list collecting (leaf node, the operand object the user holds for it)."""
    import operator

    import tdgl
    from tdgl.sources import ConstantField, LinearRamp, Scale

    if shared is None:
        shared = {}
    lab = node.get("share")
    if lab is not None and lab in shared:
        if registry is not None and "leaf" in node:
            registry.append((node, shared[lab]))
        return shared[lab]
    if "leaf" in node:
        k = node["leaf"]
        if k == "const_field":
            obj = ConstantField(node["B"], field_units=ctx["field_units"], length_units=ctx["length_units"])
        elif k == "ramp":
            obj = LinearRamp(tmin=node["tmin"], tmax=node["tmax"], initial=node.get("initial", 0.0), final=node.get("final", 1.0))
        elif k == "pw":
            obj = Scale(pw_scale, times=tuple(node["times"]), values=tuple(node["values"]))
        elif k == "sin":
            obj = Scale(sin_scale, omega=node["omega"], phase=node.get("phase", 0.0), offset=node.get("offset", 0.0))
        elif k == "cos":
            obj = Scale(cos_scale, omega=node["omega"], phase=node.get("phase", 0.0), offset=node.get("offset", 0.0))
        elif k == "num":
            obj = int(node["v"]) if node.get("int") else float(node["v"])
        elif k == "gauge":
            obj = tdgl.Parameter(
                gauge_grad,
                c=tuple(node.get("c", (0.0, 0.0))),
                q=tuple(node.get("q", (0.0, 0.0, 0.0))),
                inv_scale=1.0 / ctx["A_scale"],
                xi=ctx["xi"],
            )
        elif k == "loop":
            from tdgl.sources import CurrentLoop

            xi = ctx["xi"]
            obj = CurrentLoop(
                current=node["I"],
                radius=node["R"] * xi,
                center=tuple(c * xi for c in node["c"]),
                current_units=ctx["current_units"],
                field_units=ctx["field_units"],
                length_units=ctx["length_units"],
            )
        elif k == "wave":
            obj = tdgl.Parameter(wave_field, time_dependent=True, a=node["a"], kx=node["kx"], ky=node["ky"], w=node["w"])
        elif k == "wave_xi":
            # amplitude and wave vector stated in units of xi: the same physical field in every unit system
            xi = ctx["xi"]
            obj = tdgl.Parameter(wave_field, time_dependent=True, a=0.2 * node["B"] * xi, kx=node["kx"] / xi, ky=node["ky"] / xi, w=node["w"])
        elif k == "scalar2d":
            obj = tdgl.Parameter(scalar2d, a=node["a"], b=node["b"])
        elif k == "column2d":
            obj = tdgl.Parameter(column2d, a=node["a"], b=node["b"])
        elif k == "short3d":
            obj = tdgl.Parameter(short3d, a=node["a"], b=node["b"])
        else:
            raise ValueError(k)
    else:
        ops = {"+": operator.add, "-": operator.sub, "*": operator.mul, "/": operator.truediv, "**": operator.pow}
        l = build_tree(node["l"], ctx, shared, registry)
        r = build_tree(node["r"], ctx, shared, registry)
        obj = ops[node["op"]](l, r)
    if registry is not None and "leaf" in node:
        registry.append((node, obj))
    if lab is not None:
        shared[lab] = obj
    return obj


def scalar2d(x, y, z, a=1.0, b=0.0):
    return a + b * np.cos(np.atleast_1d(x) + 2 * np.atleast_1d(y))


def column2d(x, y, z, a=1.0, b=0.0):
    return (a + b * np.cos(np.atleast_1d(x) + 2 * np.atleast_1d(y)))[:, None] * np.ones((1, 1))


def short3d(x, y, z, a=1.0, b=0.0):
    """A vector potential evaluated on the wrong number of points."""
    n = max(2, len(np.atleast_1d(x)) // 2)
    return a * np.ones((n, 3))


def eval_tree(node, ctx, x, y, z, t):
    """Independent interpreter: evaluates leaves by calling the leaf *functions* directly
    and combines with python operators. Returns physical-unit values."""
    import operator

    from tdgl.sources.constant import constant_field_vector_potential
    from tdgl.sources.scaling import linear_ramp

    if "leaf" in node:
        k = node["leaf"]
        if k == "const_field":
            return constant_field_vector_potential(
                x, y, z, Bz=float(node["B"]), field_units=ctx["field_units"], length_units=ctx["length_units"]
            )
        if k == "ramp":
            return linear_ramp(x, y, z, t=t, tmin=node["tmin"], tmax=node["tmax"], initial=node.get("initial", 0.0), final=node.get("final", 1.0))
        if k == "pw":
            return _pw_value(t, node["times"], node["values"])
        if k == "sin":
            return sin_scale(x, y, z, t=t, omega=node["omega"], phase=node.get("phase", 0.0), offset=node.get("offset", 0.0))
        if k == "cos":
            return cos_scale(x, y, z, t=t, omega=node["omega"], phase=node.get("phase", 0.0), offset=node.get("offset", 0.0))
        if k == "num":
            return int(node["v"]) if node.get("int") else float(node["v"])
        if k == "gauge":
            return gauge_grad(x, y, z, c=tuple(node.get("c", (0, 0))), q=tuple(node.get("q", (0, 0, 0))), inv_scale=1.0 / ctx["A_scale"], xi=ctx["xi"])
        if k == "loop":
            from tdgl.sources.loop import loop_vector_potential

            xi = ctx["xi"]
            return loop_vector_potential(
                np.atleast_1d(x), np.atleast_1d(y), np.atleast_1d(z), current=node["I"], radius=node["R"] * xi, center=tuple(c * xi for c in node["c"]),
                current_units=ctx["current_units"], field_units=ctx["field_units"], length_units=ctx["length_units"],
            )
        if k == "wave":
            return wave_field(x, y, z, t=t, a=node["a"], kx=node["kx"], ky=node["ky"], w=node["w"])
        if k == "wave_xi":
            xi = ctx["xi"]
            return wave_field(x, y, z, t=t, a=0.2 * node["B"] * xi, kx=node["kx"] / xi, ky=node["ky"] / xi, w=node["w"])
        if k == "scalar2d":
            v = scalar2d(x, y, z, a=node["a"], b=node["b"])
            return v
        raise ValueError(k)
    ops = {"+": operator.add, "-": operator.sub, "*": operator.mul, "/": operator.truediv, "**": operator.pow}
    l = eval_tree(node["l"], ctx, x, y, z, t)
    r = eval_tree(node["r"], ctx, x, y, z, t)
    l = _col(l)
    r = _col(r)
    return ops[node["op"]](l, r)


def _col(v):
    """Scalars stay scalars; (n,) arrays become (n,1) so they broadcast against (n,3)."""
    if isinstance(v, np.ndarray) and v.ndim == 1:
        return v[:, None]
    return v


def tree_time_dependent(node):
    if "leaf" in node:
        return node["leaf"] in ("ramp", "pw", "sin", "cos", "wave", "wave_xi")
    return tree_time_dependent(node["l"]) or tree_time_dependent(node["r"])


def field_to_tree(field):
    """Normalise every field spec to a tree (or None for the plain-number interface)."""
    k = field["kind"]
    if k == "zero":
        return None
    if k == "const":
        return None
    if k == "const_param":
        tree = {"leaf": "const_field", "B": field["B"]}
    elif k == "ramp":
        tree = {
            "op": "*",
            "l": {"leaf": "ramp", "tmin": field["tmin"], "tmax": field["tmax"], "initial": field.get("initial", 0.0), "final": field.get("final", 1.0)},
            "r": {"leaf": "const_field", "B": field["B"]},
        }
    elif k == "pw":
        tree = {"op": "*", "l": {"leaf": "pw", "times": field["times"], "values": field["values"]}, "r": {"leaf": "const_field", "B": field["B"]}}
    elif k == "sin":
        tree = {"op": "*", "l": {"leaf": "sin", "omega": field["omega"], "phase": field.get("phase", 0.0), "offset": field.get("offset", 0.0)}, "r": {"leaf": "const_field", "B": field["B"]}}
    elif k == "loop":
        tree = {"leaf": "loop", "I": field["I"], "R": field["R"], "c": field["c"]}
    elif k == "wave":
        tree = {"leaf": "wave_xi", "B": field["B"], "kx": field["kx"], "ky": field["ky"], "w": field["w"]}
    elif k == "tree":
        tree = field["tree"]
    else:
        raise ValueError(k)
    return tree


def plain_field(shape, B, ctx):
    """A plain python callable (not a tdgl.Parameter) for the applied vector potential."""
    from tdgl.sources.constant import constant_field_vector_potential

    fu, lu = ctx["field_units"], ctx["length_units"]

    def A(x, y, z):
        full = constant_field_vector_potential(np.atleast_1d(x), np.atleast_1d(y), np.atleast_1d(z), Bz=float(B), field_units=fu, length_units=lu)
        if shape == "ok3":
            return full
        if shape == "ok2":
            return full[:, :2]
        if shape == "col1":
            return full[:, :1]
        if shape == "flat":
            return full[:, 0]
        if shape == "short":
            return full[: max(2, len(full) // 2)]
        raise ValueError(shape)

    return A


def build_field(field, ctx):
    """Returns (object handed to the solver, tree or None)."""
    gauge = field.get("gauge")
    if field["kind"] == "plain" and gauge is None:
        return plain_field(field["shape"], field["B"], ctx), {"leaf": "const_field", "B": field["B"]}
    if field["kind"] == "plain":
        field = {"kind": "const_param", "B": field["B"], "gauge": gauge}  # the gauge twin needs a Parameter sum
    tree = field_to_tree(field)
    if tree is None:
        B = 0.0 if field["kind"] == "zero" else field["B"]
        if gauge is None:
            return B, {"leaf": "const_field", "B": B}
        tree = {"leaf": "const_field", "B": B}
    if gauge is not None:
        tree = {"op": "+", "l": tree, "r": {"leaf": "gauge", "c": gauge.get("c", (0, 0)), "q": gauge.get("q", (0, 0, 0))}}
    return build_tree(tree, ctx), tree


def make_ctx(dev_spec, opt_spec):
    sc = si.Scales.from_spec(dev_spec)
    fu = opt_spec.get("field_units", "mT")
    lu = dev_spec["length_units"]
    return {
        "field_units": fu,
        "length_units": lu,
        "A_scale": sc.A_scale(fu, lu),
        "xi": dev_spec["layer"]["xi"],
        "current_units": opt_spec.get("current_units", "uA"),
    }


# --------------------------------------------------------------------------------------
# options
# --------------------------------------------------------------------------------------
def build_options(opt_spec, output_file):
    import tdgl

    kw = dict(opt_spec)
    tp = kw.get("terminal_psi", 0.0)
    if isinstance(tp, dict):
        kw["terminal_psi"] = complex(tp["re"], tp["im"])
    kw["output_file"] = output_file
    return tdgl.SolverOptions(**kw)


OPTION_DEFAULTS = {
    "dt_init": 1e-6, "dt_max": 1e-1, "terminal_psi": 0.0, "adaptive_time_step_multiplier": 0.25, "screening_step_drag": 0.5,
    "screening_step_size": 0.1, "screening_tolerance": 1e-3, "sparse_solver": "superlu", "gpu": False,
}


def apply_option_updates(options, updates):
    for k, v in updates.items():
        if isinstance(v, dict) and "re" in v:
            v = complex(v["re"], v["im"])
        setattr(options, k, v)
