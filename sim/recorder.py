"""Executable specification of the recording loop (C05; shared by C11 and C15).

Written from the property text, not from the code:

  * frames are recorded at steps 0, k, 2k, ... and at the final step;
  * a frame labelled (step s, time t) holds the state after exactly s updates and
    t equals the sum of the first s time steps;
  * per-step records appear exactly once per step, in order;
  * the run stops at the first step whose time reaches the requested solve time;
  * thermalisation steps are never recorded; recorded time restarts from zero.

Inputs are what the simulator observed at the update seam (independent of the runner's
own bookkeeping): for every committed update of the recording stage its used dt and a
copy of the values it returned, and the values handed to the first update.
"""
import numpy as np
from .common import aeq  # noqa: E402

from .common import Violation, max_err

TIME_RTOL = 1e-12


def expected_rows(h, solver, stub=False):
    """Per-step record rows derived from the update seam for the recording stage."""
    rows = []
    pp = solver.probe_points
    for u in h.stages["S"]:
        if u["out"] is None:
            break
        row = {"dt": used_dt(u)}
        if stub:
            # the stub's values carry no physics: the row is what the stub appended
            row.update({k: np.asarray(v).ravel() for k, v in u["rs_row"].items() if k != "dt"})
        else:
            if pp is not None:
                row["mu"] = np.asarray(u["out"]["mu"])[pp]
                row["theta"] = np.angle(np.asarray(u["out"]["psi"])[pp])
            if solver.options.include_screening:
                row["screening_iterations"] = np.array([u["n_screen"]], dtype=float)
        rows.append(row)
    return rows


def used_dt(u):
    """The time step an update actually used: the dt of the accepted psi attempt when the
    update went through the real psi seam (Engine A), else the dt it reported (stub)."""
    acc = [a for a in u.get("attempts", []) if not a[1]]
    if acc:
        return acc[-1][0]
    return u["dt"]


def model_times(dts):
    t = [0.0]
    for d in dts:
        t.append(t[-1] + d)
    return t


def state_after(h, s):
    """State after exactly s updates of the recording stage (None if unknown)."""
    S = h.stages["S"]
    if s == 0:
        if S and S[0]["in"] is not None:
            return S[0]["in"]
        T = [u for u in h.stages["T"] if u["out"] is not None]
        if T:
            return T[-1]["out"]
        return None
    if s - 1 < len(S) and S[s - 1]["out"] is not None:
        return S[s - 1]["out"]
    return None


def check_frames(h, frames, k, solve_time, stopped_at=None, source="captured"):
    """frames: list of dicts(number, step, time, data{}, running{} or None) in file order.

    stopped_at: None for a run that ended by itself; otherwise the step index i at which
    the run was stopped (cancel) -- frames are then those recorded before the stop plus
    the final partial frame at i.
    Returns a list of Violations.
    """
    V = []
    S = h.stages["S"]
    done = [u for u in S if u["out"] is not None]
    dts = [used_dt(u) for u in done]
    t_model = model_times(dts)
    # label times reported to the update seam, one per started update
    label_times = [u["time"] for u in S]

    # --- (v) nothing of the thermalisation stage
    for fr in frames:
        if fr.get("stage", "S") != "S":
            V.append(Violation("thermal-frame", f"{source}: frame {fr['number']} written during thermalisation", step=fr["step"]))
    if frames and (frames[0]["step"] != 0 or frames[0]["time"] != 0):
        V.append(Violation("first-frame", f"{source}: first frame is (step {frames[0]['step']}, time {frames[0]['time']}), expected (0, 0)"))

    # --- label times == sum of the first s dt
    for i, lt in enumerate(label_times):
        if i < len(t_model) and abs(lt - t_model[i]) > TIME_RTOL * (1 + abs(t_model[i])):
            V.append(Violation("time-sum", f"time handed to update {i} is {lt!r}, sum of first {i} dt is {t_model[i]!r}", step=i))
            break

    # --- (iv) stop rule
    if stopped_at is None:
        N = None
        for s, ts in enumerate(t_model):
            if ts >= solve_time or (s < len(label_times) and label_times[s] >= solve_time):
                N = s
                break
        if N is None:
            V.append(Violation("stop-early", f"run ended after {len(dts)} updates at t={t_model[-1]!r} < solve_time={solve_time!r}"))
            N = len(dts)
    else:
        N = stopped_at
    final = N

    # --- (i) labels
    exp_labels = list(range(0, final + 1, k))
    if exp_labels[-1] != final:
        exp_labels.append(final)
    got_labels = [fr["step"] for fr in frames]
    if got_labels != exp_labels:
        V.append(
            Violation(
                "frame-labels",
                f"{source}: frame labels {got_labels} expected {exp_labels} (k={k}, final step {final})",
                k=k,
                N=final,
                N_mod_k=final % k,
            )
        )
    nums = [fr["number"] for fr in frames]
    if nums != list(range(len(frames))):
        V.append(Violation("frame-numbers", f"{source}: frame numbers {nums} are not consecutive from 0"))

    # --- (ii) content and time of every frame
    for fr in frames:
        s = fr["step"]
        exp = state_after(h, s)
        if exp is None:
            continue
        bad = []
        for name, arr in fr["data"].items():
            if name in exp and exp[name] is not None:
                a = np.asarray(arr)
                b = np.asarray(exp[name])
                if a.shape != b.shape or not aeq(a, b):
                    bad.append(name)
        if bad:
            # which update count does it actually hold?
            holds = None
            for s2 in range(0, len(done) + 1):
                e2 = state_after(h, s2)
                if e2 is not None and all(aeq(np.asarray(fr["data"][n]), np.asarray(e2[n])) for n in bad if n in e2):
                    holds = s2
                    break
            V.append(
                Violation(
                    "frame-content",
                    f"{source}: frame labelled step {s} does not hold the state after {s} updates"
                    + (f" (it holds the state after {holds})" if holds is not None else "")
                    + f"; differing: {bad}",
                    k=k,
                    step=s,
                    holds=holds,
                    is_final=(s == final),
                    N_mod_k=final % k,
                )
            )
        if s < len(t_model):
            if abs(fr["time"] - t_model[s]) > TIME_RTOL * (1 + abs(t_model[s])):
                V.append(Violation("frame-time", f"{source}: frame step {s} time {fr['time']!r} != sum of first {s} dt {t_model[s]!r}", step=s))

    # --- (iii) records: exactly once per step, in order
    rows = h.expected_rows
    prev = 0
    for fr in frames:
        s = fr["step"]
        rs = fr["running"]
        if s == 0:
            if rs is not None:
                V.append(Violation("records-frame0", f"{source}: frame 0 carries per-step records"))
            continue
        if rs is None or "dt" not in rs:
            V.append(Violation("records-missing", f"{source}: frame step {s} has no per-step records", step=s))
            prev = s
            continue
        dt = np.atleast_1d(np.asarray(rs["dt"], dtype=float)).reshape(-1)
        valid = dt > 0
        got_dt = dt[valid]
        want = rows[prev:s]
        if len(got_dt) != len(want):
            V.append(
                Violation(
                    "records-count",
                    f"{source}: frame step {s} carries {len(got_dt)} records, expected {len(want)} (steps {prev}..{s - 1})",
                    k=k,
                    step=s,
                    got=int(len(got_dt)),
                    want=len(want),
                    is_final=(s == final),
                    N_mod_k=final % k,
                )
            )
        else:
            for j, w in enumerate(want):
                if got_dt[j] != w["dt"]:
                    V.append(Violation("records-dt", f"{source}: frame step {s} record {j}: dt {got_dt[j]!r} != used dt {w['dt']!r} of step {prev + j}", step=s))
                    break
            for name in ("mu", "theta", "screening_iterations"):
                if name in rs and want and name in want[0]:
                    arr = np.asarray(rs[name], dtype=float)
                    arr = arr.reshape(-1, len(dt)) if arr.ndim <= 1 else arr
                    arr = arr[:, valid]
                    exp_arr = np.stack([np.asarray(w[name], dtype=float).reshape(-1) for w in want], axis=1)
                    if arr.shape != exp_arr.shape or not aeq(arr, exp_arr):
                        V.append(Violation("records-" + name, f"{source}: frame step {s}: {name} records differ from the per-step values (max err {max_err(arr, exp_arr):.3g})", step=s))
        prev = s
    return V, final, t_model


def check_solution(h, sol, frames, final, t_model):
    """Solution.times and Solution.dynamics against the recorder model."""
    V = []
    rows = h.expected_rows[:final]
    try:
        times = sol.times
        dyn = sol.dynamics
    except Exception as e:
        return [Violation("solution-access", f"Solution.times/dynamics raised {type(e).__name__}: {str(e)[:100]}")]
    frame_times = [t_model[fr["step"]] if fr["step"] < len(t_model) else fr["time"] for fr in frames]
    if times is None or len(times) != len(frame_times) or any(abs(a - b) > TIME_RTOL * (1 + abs(b)) for a, b in zip(times, frame_times)):
        V.append(
            Violation(
                "solution-times",
                f"Solution.times {None if times is None else [float(x) for x in times]} != frame times {frame_times}",
            )
        )
    if dyn is None:
        V.append(Violation("dynamics-none", "Solution.dynamics is None"))
        return V
    want_dt = np.array([w["dt"] for w in rows], dtype=float)
    got = np.asarray(dyn.dt, dtype=float)
    if got.shape != want_dt.shape or not aeq(got, want_dt):
        V.append(
            Violation(
                "dynamics-dt",
                f"Solution.dynamics.dt has {got.size} entries, the run has {want_dt.size} steps"
                if got.shape != want_dt.shape
                else "Solution.dynamics.dt differs from the used time steps",
                got=int(got.size),
                want=int(want_dt.size),
            )
        )
    else:
        # derived views of the same records: the time axis of the records is the running sum of the used
        # time steps, probe voltages / phase differences are differences of the recorded columns, and the
        # saved step closest to a frame's own time is that frame
        try:
            tt = np.asarray(dyn.time, dtype=float)
            if tt.shape != want_dt.shape or not aeq(tt, np.cumsum(want_dt)):
                V.append(Violation("dynamics-time", "Solution.dynamics.time is not the running sum of the used time steps"))
            if rows and "mu" in rows[0] and dyn.mu is not None and np.asarray(dyn.mu).ndim == 2 and np.asarray(dyn.mu).shape[0] >= 2:
                mu_ = np.stack([np.asarray(w["mu"], dtype=float).reshape(-1) for w in rows], axis=1)
                th_ = np.stack([np.asarray(w["theta"], dtype=float).reshape(-1) for w in rows], axis=1)
                j_ = mu_.shape[0] - 1
                if not aeq(np.asarray(dyn.voltage(0, j_)), mu_[0] - mu_[j_]) or not aeq(np.asarray(dyn.voltage(j_, 0)), mu_[j_] - mu_[0]):
                    V.append(Violation("dynamics-voltage", f"Solution.dynamics.voltage(0, {j_}) is not the difference of the recorded probe potentials"))
                if not aeq(np.asarray(dyn.phase_difference(0, j_)), th_[0] - th_[j_]):
                    V.append(Violation("dynamics-phase", f"Solution.dynamics.phase_difference(0, {j_}) is not the difference of the recorded probe phases"))
            if times is not None and len(times) == len(frame_times) and hasattr(sol, "closest_solve_step"):
                for j_, t_ in enumerate(frame_times):
                    others = [abs(t_ - x) for i_, x in enumerate(frame_times) if i_ != j_]
                    if others and min(others) <= 1e-9 * (1 + abs(t_)):
                        continue  # two frames at (nearly) the same time: either answer
                    got_j = int(sol.closest_solve_step(t_))
                    if got_j != j_:
                        V.append(Violation("closest-step", f"Solution.closest_solve_step({t_!r}) returns {got_j}, the frame recorded at that time is number {j_}"))
                        break
        except Exception as e:
            tb_ = __import__("traceback").extract_tb(e.__traceback__)
            if not any("/tdgl/" in f_.filename for f_ in tb_):
                raise
            V.append(Violation("solution-access", f"derived per-step records raised {type(e).__name__}: {str(e)[:100]}"))
        for name in ("mu", "theta", "screening_iterations"):
            arr = getattr(dyn, name)
            if rows and name in rows[0]:
                if arr is None:
                    V.append(Violation("dynamics-" + name, f"Solution.dynamics.{name} is None"))
                    continue
                exp_arr = np.stack([np.asarray(w[name], dtype=float).reshape(-1) for w in rows], axis=1)
                arr = np.asarray(arr, dtype=float)
                if arr.ndim == 1:
                    arr = arr.reshape(1, -1)
                if arr.shape != exp_arr.shape or not aeq(arr, exp_arr):
                    V.append(Violation("dynamics-" + name, f"Solution.dynamics.{name} differs from the per-step values"))
    return V


def check_solution_views(h, sol, frames, final, t_model, path=None):
    """The loaded solution looked at through another saved step: `solution.solve_step = j` and
    `Solution.from_hdf5(path, solve_step=j)`. The times and per-step records it reports are those of
    the whole recorded run whatever step is being viewed, and the state it shows is frame j's."""
    V = []
    frs = sorted([fr for fr in frames if fr.get("completed", True)], key=lambda fr: fr["number"])
    n = len(frs)
    if n < 2:
        return V
    picks = sorted({0, n // 2, max(0, n - 2)} - {n - 1})
    sols = [("solve_step", sol)]
    for j in picks:
        views = []
        try:
            sol.solve_step = j
            views.append(("solution.solve_step = %d" % j, sol))
            if path is not None:
                import tdgl

                views.append(("Solution.from_hdf5(solve_step=%d)" % j, tdgl.Solution.from_hdf5(path, solve_step=j)))
        except Exception as e:
            V.append(Violation("view-access", f"looking at saved step {j} of {n} raised {type(e).__name__}: {str(e)[:100]}", view=j))
            break
        for label, s_ in views:
            for v in check_solution(h, s_, frames, final, t_model):
                v["msg"] = f"[{label}] " + v["msg"]
                v["where"]["view"] = j
                V.append(v)
            try:
                td = s_.tdgl_data
                bad = [name for name in ("psi", "mu", "supercurrent", "normal_current", "induced_vector_potential") if name in frs[j]["data"] and not aeq(np.asarray(getattr(td, name)), np.asarray(frs[j]["data"][name]))]
            except Exception as e:
                V.append(Violation("view-access", f"[{label}] tdgl_data raised {type(e).__name__}: {str(e)[:100]}", view=j))
                continue
            if bad:
                V.append(Violation("view-content", f"[{label}] the state shown for saved step {j} differs from frame {j} in {bad}", view=j))
        if V:
            break
    try:
        sol.solve_step = -1
    except Exception:
        pass
    return V


def read_frames(path):
    """Re-open the output with plain h5py (never through the run's handles)."""
    import h5py

    frames = []
    with h5py.File(path, "r") as f:
        for key in f["data"]:
            g = f["data"][key]
            fr = {
                "number": int(key),
                "step": int(g.attrs["step"]) if "step" in g.attrs else None,
                "time": float(g.attrs["time"]) if "time" in g.attrs else None,
                "dt": float(g.attrs["dt"]) if "dt" in g.attrs else None,
                "attrs": sorted(g.attrs),
                "data": {n: np.array(g[n]) for n in g if n != "running_state"},
                "running": {n: np.array(g["running_state"][n]) for n in g["running_state"]} if "running_state" in g else None,
                "stage": "S",
            }
            frames.append(fr)
        fixed = {n: np.array(f[n]) for n in f if isinstance(f[n], h5py.Dataset)}
    frames.sort(key=lambda fr: fr["number"])
    return frames, fixed
