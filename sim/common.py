"""Seeding, digests and small helpers shared by every component."""
import hashlib
import json
import logging
import os
import random

import numpy as np


def substream(seed, *labels):
    """An independent ``random.Random`` for (seed, labels...).

    Adding a draw in one component never perturbs another because every component
    owns its own stream.
    """
    h = hashlib.sha256(repr((int(seed),) + tuple(labels)).encode()).digest()
    return random.Random(int.from_bytes(h[:8], "big"))


def jdump(obj):
    return json.dumps(obj, sort_keys=True, default=_json_default)


def _json_default(o):
    if isinstance(o, (np.integer,)):
        return int(o)
    if isinstance(o, (np.floating,)):
        return float(o)
    if isinstance(o, complex):
        return {"re": o.real, "im": o.imag}
    if isinstance(o, np.ndarray):
        return o.tolist()
    if isinstance(o, (set, frozenset)):
        return sorted(o)
    if isinstance(o, bytes):
        return o.hex()
    return repr(o)


def digest_obj(obj):
    return hashlib.sha256(jdump(obj).encode()).hexdigest()[:16]


def digest_arrays(*arrays):
    h = hashlib.sha256()
    for a in arrays:
        if a is None:
            h.update(b"None")
            continue
        a = np.ascontiguousarray(a)
        h.update(str(a.dtype).encode())
        h.update(str(a.shape).encode())
        h.update(a.tobytes())
    return h.hexdigest()[:16]


def quiet():
    """Silence the library's logging and progress bars (never a decision input)."""
    import warnings

    logging.disable(logging.CRITICAL)
    os.environ.setdefault("TQDM_DISABLE", "1")
    warnings.filterwarnings("ignore")


class Violation(dict):
    """A property violation found by an oracle.

    rule: stable oracle rule id (the violation class used by the minimiser)
    msg: human readable
    where: small dict of facts used to match known findings
    """

    def __init__(self, rule, msg, **where):
        super().__init__(rule=rule, msg=msg, where=where)


class Discard(Exception):
    """The generated scenario cannot be run for reasons outside every property
    (singular Neumann factorisation, malformed Voronoi cell...)."""


class HarnessError(Exception):
    """The machinery itself is broken; never reported as a VIOLATION."""


def rel_close(a, b, tol):
    a = np.asarray(a)
    b = np.asarray(b)
    if a.shape != b.shape:
        return False
    scale = 1.0 + max(float(np.max(np.abs(a), initial=0.0)), float(np.max(np.abs(b), initial=0.0)))
    return bool(np.all(np.abs(a - b) <= tol * scale))


def max_err(a, b):
    a = np.asarray(a)
    b = np.asarray(b)
    if a.shape != b.shape:
        return float("inf")
    if a.size == 0:
        return 0.0
    return float(np.max(np.abs(a - b)))


def aeq(a, b):
    """Bitwise-style array equality in which NaN equals NaN (a blown-up state that is NaN in two
    executions of the same computation is still 'the same')."""
    a = np.asarray(a)
    b = np.asarray(b)
    if a.shape != b.shape:
        return False
    if a.dtype.kind in "fc" or b.dtype.kind in "fc":
        return bool(np.array_equal(a, b, equal_nan=True))
    return bool(np.array_equal(a, b))
