"""tdglsim: deterministic simulation with fault injection for py-tdgl.

See /verif/DESIGN.md.  Everything in this package derives its choices from
``random.Random`` streams seeded from (VERIF_SEED, run index, label); nothing here
reads a real clock or the global numpy RNG for a decision.
"""
